"""Reference control-sequence tokenizer (C19, C02): regular expression driven, left to right."""
import re

_csi = re.compile('\x1b\\[([^\x40-\x7e]*)([\x40-\x7e])?')


def tokenize(s, allow_empty=True, acceptable=None):
    """Returns (unformatted, seqs, ambiguous); seqs = list of (index_into_unformatted, params, final)."""
    out = []
    seqs = []
    amb = False
    pos = 0
    ulen = 0
    while True:
        m = _csi.search(s, pos)
        if not m:
            break
        if m.start() > pos:
            out.append(s[pos:m.start()])
            ulen += m.start() - pos
        params, final = m.group(1), m.group(2) or ''
        for ch in params:
            if not ('\x30' <= ch <= '\x3f'):
                amb = True
        ok = bool(final) or allow_empty
        if ok and acceptable is not None:
            ok = (final in acceptable) if final else True
        if ok:
            seqs.append((ulen, params, final))
        else:
            out.append(m.group(0))
            ulen += len(m.group(0))
        pos = m.end()
    out.append(s[pos:])
    return ''.join(out), seqs, amb


def reinsert(unformatted, seqs):
    """seqs: list of (index, params, final) in order."""
    out = []
    last = 0
    for idx, params, final in seqs:
        out.append(unformatted[last:idx])
        out.append('\x1b[' + params + final)
        last = idx
    out.append(unformatted[last:])
    return ''.join(out)
