"""Parallel task runner, accumulators, evidence writer, known findings, violation reporting, replay.

A property module (mc/props/cNN.py) provides
    ID, TITLE, LEVEL_TEXT (optional)
    tasks(tier, seed)            -> list of JSON-able task descriptors (ordered simplest first)
    run_task(task, acc)          -> explores the task exhaustively; calls acc.* to count and report
    replay(case)                 -> list of (clause, detail) still violated by that single case
    describe(tier, seed)         -> dict merged into evidence coverage (bounds, alphabets, rule ...)
"""
import hashlib
import importlib
import json
import multiprocessing
import os
import signal
import sys
import time
import traceback
from collections import Counter

from . import env

VIOL_CAP_PER_TASK = 40
REPORT_CAP = 12


class CaseTimeout(BaseException):       # not an Exception: the check modules' `except Exception` must not swallow it
    pass


class WallTimeout(BaseException):
    pass


def _alarm(_sig, _frm):
    raise CaseTimeout()


def _wall(_sig, _frm):
    raise WallTimeout()


def _disarm():
    signal.setitimer(signal.ITIMER_PROF, 0)
    signal.alarm(0)


class Acc:
    def __init__(self, seed):
        self.seed = seed
        self.evaluations = 0
        self.transitions = 0
        self.validated = 0
        self.state_count = 0
        self.nontrivial_count = 0
        self.outcome_count = 0
        self.states = set()
        self.outcomes = set()
        self.nontrivial = set()
        self.counters = Counter()
        self.samples = []
        self.violations = []
        self.n_violations = 0
        self.caps = []
        self.current = None
        self._k = 0
        self._per_sig = Counter()

    # --- counting -----------------------------------------------------------------------
    def state(self, h):
        self.states.add(h)

    def outcome(self, h):
        self.outcomes.add(h if isinstance(h, int) else hash(h))

    def nontriv(self, h):
        self.nontrivial.add(h if isinstance(h, int) else hash(h))

    def sample(self, case):
        """Keep the 3 cases with the smallest seed-dependent rank (cheap: only every 97th case hashed)."""
        self._k += 1
        if self._k % 97 != 1 and len(self.samples) >= 3:
            return
        r = hashlib.blake2b(('%d|%r' % (self.seed, case)).encode('utf-8', 'surrogatepass'), digest_size=6).hexdigest()
        self.samples.append((r, case))
        if len(self.samples) > 6:
            self.samples.sort(key=lambda x: x[0])
            del self.samples[3:]

    def violation(self, clause, case, detail, sig=None):
        self.n_violations += 1
        key = (clause, sig or clause)
        self._per_sig[key] += 1
        if self._per_sig[key] <= 2 and len(self.violations) < VIOL_CAP_PER_TASK:
            self.violations.append({'clause': clause, 'case': case, 'detail': str(detail)[:1500],
                                    'sig': sig or clause})

    def export(self):
        self.samples.sort(key=lambda x: x[0])
        return {
            'evaluations': self.evaluations, 'transitions': self.transitions, 'validated': self.validated,
            'state_count': self.state_count, 'nontrivial_count': self.nontrivial_count, 'states': self.states, 'outcomes': self.outcomes,
            'nontrivial': self.nontrivial, 'counters': dict(self.counters), 'samples': self.samples[:3],
            'violations': self.violations, 'n_violations': self.n_violations, 'caps': self.caps,
        }


def load_prop(pid):
    return importlib.import_module('mc.props.' + pid.lower())


def _work(arg):
    pid, idx, task, tier, seed, task_budget = arg
    mod = load_prop(pid)
    acc = Acc(seed)
    # The task budget is CPU time of this worker (ITIMER_PROF): a loaded machine must not turn into an alarm.  A wall-clock
    # limit (4x) only caps the task - it is reported as incomplete coverage, never as a violation.
    signal.signal(signal.SIGPROF, _alarm)
    signal.setitimer(signal.ITIMER_PROF, task_budget)
    signal.signal(signal.SIGALRM, _wall)
    signal.alarm(task_budget * 4)
    try:
        mod.run_task(task, acc)
    except CaseTimeout:
        _disarm()
        acc.violation('timeout', acc.current, 'no result within %d s of CPU time while processing this case '
                      '(non-termination or pathological slowness)' % task_budget, sig='timeout')
        acc.caps.append('task %d stopped by watchdog' % idx)
    except WallTimeout:
        _disarm()
        acc.caps.append('task %d stopped at its wall-clock limit of %d s with CPU budget left (machine load); its remaining '
                        'cases were not explored' % (idx, task_budget * 4))
    except env.HarnessError as e:
        _disarm()
        return idx, {'harness_error': 'task %r: %s' % (task, e)}
    except Exception as e:  # noqa
        _disarm()
        # an exception raised INSIDE the library under test while the harness was reading or driving a value is a
        # finding about the library (with the case being processed), not a harness failure
        tb = traceback.extract_tb(e.__traceback__)
        if tb and os.path.abspath(tb[-1].filename).startswith(os.path.abspath(env.SRC) + os.sep) and isinstance(acc.current, dict):
            where = ' <- '.join('%s:%d' % (os.path.basename(f.filename), f.lineno) for f in reversed(tb[-6:]))
            acc.violation('library-exception', acc.current, 'the library raised %s: %s while this case was being checked (%s)'
                          % (type(e).__name__, e, where), sig='library-exception:' + type(e).__name__)
            acc.caps.append('task %d aborted by a library exception' % idx)
            for v in acc.violations:
                v['task'] = idx
            return idx, acc.export()
        return idx, {'harness_error': 'task %r crashed:\n%s' % (task, traceback.format_exc())}
    finally:
        _disarm()
    for v in acc.violations:
        v['task'] = idx
    return idx, acc.export()


def merge(results):
    tot = {'evaluations': 0, 'transitions': 0, 'validated': 0, 'state_count': 0, 'nontrivial_count': 0, 'states': set(),
           'outcomes': set(), 'nontrivial': set(), 'counters': Counter(), 'samples': [], 'violations': [],
           'n_violations': 0, 'caps': []}
    for idx in sorted(results):
        r = results[idx]
        for k in ('evaluations', 'transitions', 'validated', 'state_count', 'nontrivial_count', 'n_violations'):
            tot[k] += r[k]
        for k in ('states', 'outcomes', 'nontrivial'):
            tot[k] |= r[k]
        tot['counters'].update(r['counters'])
        tot['samples'].extend(r['samples'])
        tot['violations'].extend(r['violations'])
        tot['caps'].extend(r['caps'])
    tot['samples'].sort(key=lambda x: x[0])
    return tot


# -------------------------------------------------------------------------------------------
# known findings

KF_PATH = os.path.join(env.VERIF, 'known_findings.json')


def load_known():
    if not os.path.exists(KF_PATH):
        return {'open': [], 'fixed': []}
    with open(KF_PATH) as f:
        return json.load(f)


def finding_matches(f, v):
    """A finding suppresses a violation only if property, clause and the committed shape predicate match."""
    if v['clause'] not in f.get('clauses', [f.get('clause')]):
        return False
    pred = f.get('predicate')
    if not pred:
        return False
    from . import findings
    fn = getattr(findings, pred, None)
    if fn is None:
        raise env.HarnessError('known finding %s names unknown predicate %s' % (f.get('id'), pred))
    return bool(fn(v))


# -------------------------------------------------------------------------------------------


def out_root():
    """Evidence/replays go to /verif only when the tree under test is /repo itself (mutation runs with
    VERIF_REPO pointing at a scratch copy must not overwrite committed evidence)."""
    if os.path.abspath(env.REPO) == '/repo':
        return env.VERIF
    d = os.environ.get('VERIF_OUT', '/tmp/verif-scratch-out')
    os.makedirs(d, exist_ok=True)
    return d


def write_replay(pid, v):
    d = os.path.join(out_root(), 'replays', pid)
    os.makedirs(d, exist_ok=True)
    body = {'property': pid, 'clause': v['clause'], 'case': v['case'], 'detail': v['detail']}
    if v.get('task_replay'):
        body['task_replay'] = v['task_replay']
    dig = hashlib.blake2b(json.dumps(body, sort_keys=True, default=repr).encode(), digest_size=6).hexdigest()
    path = os.path.join(d, dig + '.json')
    with open(path, 'w') as f:
        json.dump(body, f, indent=1, default=repr)
    return path


def run_single_task(pid, task, tier, seed, clause, case):
    """Run one task alone in this (fresh) process; True when the violation (clause, case) occurs."""
    global VIOL_CAP_PER_TASK
    mod = load_prop(pid)
    os.environ['VERIF_TIER'] = tier
    acc = Acc(seed)
    acc._per_sig = Counter()
    hit = [False]
    orig = acc.violation

    def watch(cl, cs, detail, sig=None):
        if cl == clause and json.dumps(cs, sort_keys=True, default=repr) == json.dumps(case, sort_keys=True, default=repr):
            hit[0] = True
        orig(cl, cs, detail, sig)
    acc.violation = watch
    try:
        mod.run_task(task, acc)
    except env.HarnessError:
        raise
    except Exception as e:  # noqa
        # (a library exception that aborts the task is recorded by the worker with the case then being processed)
        tb = traceback.extract_tb(e.__traceback__)
        if clause == 'library-exception' and tb and os.path.abspath(tb[-1].filename).startswith(os.path.abspath(env.SRC) + os.sep) \
                and json.dumps(acc.current, sort_keys=True, default=repr) == json.dumps(case, sort_keys=True, default=repr):
            hit[0] = True
    return hit[0]


def rerun_task_confirms(pid, task, tier, seed, v):
    import subprocess
    import tempfile
    body = {'property': pid, 'clause': v['clause'], 'case': v['case'], 'detail': '', 'task_replay': {'task': task, 'tier': tier, 'seed': seed}}
    with tempfile.NamedTemporaryFile('w', suffix='.json', delete=False) as f:
        json.dump(body, f, default=repr)
        path = f.name
    try:
        rcs = []
        for _ in range(2):
            p = subprocess.run([sys.executable, '-m', 'mc.main', '--replay', path], cwd=env.VERIF, stdout=subprocess.PIPE,
                               stderr=subprocess.STDOUT, env=dict(os.environ, PYTHONHASHSEED='0'), timeout=3000)
            rcs.append(p.returncode)
        return rcs == [1, 1]
    finally:
        os.unlink(path)


def run_check(pid, tier, seed, jobs=None, budget=None):
    t0 = time.time()
    mod = load_prop(pid)
    tasks = mod.tasks(tier, seed)
    jobs = jobs or int(os.environ.get('VERIF_JOBS', '0')) or min(16, os.cpu_count() or 4)
    budget = budget or int(os.environ.get('VERIF_BUDGET', '0')) or (600 if tier == 'quick' else 3300)
    task_budget = int(os.environ.get('VERIF_TASK_BUDGET', '0')) or (240 if tier == 'quick' else 1500)
    args = [(pid, i, t, tier, seed, task_budget) for i, t in enumerate(tasks)]
    results = {}
    harness_errors = []
    capped = False
    if jobs == 1 or len(args) <= 1:
        it = map(_work, args)
        pool = None
    else:
        ctx = multiprocessing.get_context('fork')
        pool = ctx.Pool(min(jobs, len(args)), maxtasksperchild=1)   # every task starts from a fresh process state
        it = pool.imap_unordered(_work, args, chunksize=1)
    try:
        for idx, r in it:
            if 'harness_error' in r:
                harness_errors.append(r['harness_error'])
            else:
                results[idx] = r
            if time.time() - t0 > budget:
                capped = True
                break
    finally:
        if pool is not None:
            pool.terminate()
            pool.join()
    if harness_errors:
        for h in harness_errors[:3]:
            sys.stdout.write('HARNESS-ERROR property=%s %s\n' % (pid, h))
        return 2
    tot = merge(results)
    if capped:
        tot['caps'].append('wall budget %d s reached: %d of %d tasks completed' % (budget, len(results), len(args)))

    # --- classify violations -----------------------------------------------------------------
    known = load_known()
    opens = [f for f in known.get('open', []) if f.get('property') == pid]
    active = []
    for f in opens:
        still = mod.replay(f['witness'])
        if any(c in f.get('clauses', [f.get('clause')]) for c, _d in still):
            sys.stdout.write('KNOWN-FINDING: property=%s %s\n' % (pid, f['what']))
            active.append(f)
        else:
            sys.stdout.write('NOTE: known finding %s no longer reproduces on its witness; entry inert\n' % f.get('id'))
    matched = Counter()
    fresh = []
    for v in tot['violations']:
        hit = None
        for f in active:
            if finding_matches(f, v):
                hit = f
                break
        if hit:
            matched[hit['id']] += 1
        else:
            fresh.append(v)
    reported = []
    seen_sig = set()
    fresh.sort(key=lambda v: len(json.dumps(v['case'], default=repr)))   # simplest witness first (stable)
    for v in fresh:
        key = (v['clause'], v['sig'])
        if key in seen_sig:
            continue
        seen_sig.add(key)
        if len(reported) >= REPORT_CAP:
            continue
        # confirm by replaying the single case on fresh objects, twice
        if v['clause'] == 'library-exception':
            def _rp():
                try:
                    return sorted(c for c, _ in mod.replay(v['case'])) or ['(none)']
                except env.HarnessError:
                    raise
                except Exception as ex:  # noqa
                    return ['raises ' + type(ex).__name__]
            c1, c2 = _rp(), _rp()
            if (c1 != c2 or c1 == ['(none)']) and 'task' in v and rerun_task_confirms(pid, tasks[v['task']], tier, seed, v):
                # (as below: the exception depends on what earlier calls of the task left behind in the library)
                v['task_replay'] = {'task': tasks[v['task']], 'tier': tier, 'seed': seed}
                v['detail'] += ' [history-dependent: reproduces only after the preceding calls of its task; replay re-runs the task]'
            elif c1 != c2 or c1 == ['(none)']:
                sys.stdout.write('HARNESS-ERROR property=%s library exception did not reproduce on replay: %s / %s\n'
                                 % (pid, json.dumps(v, default=repr)[:600], c1))
                return 2
        elif v['clause'] != 'timeout':
            r1 = mod.replay(v['case'])
            r2 = mod.replay(v['case'])
            c1 = sorted(c for c, _ in r1)
            c2 = sorted(c for c, _ in r2)
            if c1 != c2 or v['clause'] not in c1:
                # not reproducible from the single case: the failure may depend on state the library keeps between
                # calls (a cache).  Re-run the whole task that found it, alone, in a fresh process; if the same
                # violation recurs, the task is its (deterministic) history and becomes the replay artefact.
                if 'task' in v and rerun_task_confirms(pid, tasks[v['task']], tier, seed, v):
                    v['task_replay'] = {'task': tasks[v['task']], 'tier': tier, 'seed': seed}
                    v['detail'] += ' [history-dependent: reproduces only after the preceding calls of its task; replay re-runs the task]'
                else:
                    sys.stdout.write('HARNESS-ERROR property=%s violation did not reproduce on replay: %s / %s\n'
                                     % (pid, json.dumps(v, default=repr)[:600], c1))
                    return 2
        reported.append(v)
    for v in reported:
        path = write_replay(pid, v)
        sys.stdout.write('VIOLATION property=%s replay=%s\n' % (pid, path))
        sys.stdout.write('  clause=%s detail=%s\n  case=%s\n' % (v['clause'], v['detail'][:400],
                                                             json.dumps(v['case'], default=repr)[:400]))

    # --- evidence ------------------------------------------------------------------------------
    desc = mod.describe(tier, seed) if hasattr(mod, 'describe') else {}
    n_states = tot['state_count'] + len(tot['states'])
    cov = {
        'states': n_states,
        'transitions': tot['transitions'],
        'traces_validated_against_impl': tot['validated'],
        'evaluations': tot['evaluations'],
        'distinct_nontrivial': len(tot['nontrivial']) + tot['nontrivial_count'],
        'distinct_outcomes': len(tot['outcomes']),
        'samples': [c for _r, c in tot['samples'][:3]],
        'exhaustive': not tot['caps'],
        'caps_hit': tot['caps'],
        'tasks': len(args),
        'collision_classes': dict(tot['counters']),
        'known_findings_matched': dict(matched),
        'violations_total': tot['n_violations'],
        'violations_distinct_reported': len(reported),
    }
    cov.update(desc)
    wall = time.time() - t0
    ev = {
        'property_id': pid, 'tier': tier, 'seed': seed, 'level': 'model_checking', 'coverage': cov,
        'assumptions': getattr(mod, 'ASSUMPTIONS', []) + [
            'reference SGR terminal mc/refterm.py (15 effect groups as spelled out in the properties)',
            'library imported from %s, WITH_ASSERTIONS on, PYTHONHASHSEED fixed' % env.SRC],
        'wall_s': round(wall, 2),
        'violations': len(reported),
    }
    os.makedirs(os.path.join(out_root(), 'evidence'), exist_ok=True)
    with open(os.path.join(out_root(), 'evidence', pid + '.json'), 'w') as f:
        json.dump(ev, f, indent=1, default=repr)
    sys.stdout.write('%s tier=%s seed=%d states=%d transitions=%d evaluations=%d nontrivial=%d outcomes=%d '
                     'violations=%d known=%d wall=%.1fs%s\n'
                     % (pid, tier, seed, n_states, tot['transitions'], tot['evaluations'], len(tot['nontrivial']) + tot['nontrivial_count'],
                        len(tot['outcomes']), len(reported), sum(matched.values()), wall,
                        ' CAPPED' if tot['caps'] else ''))
    # vacuity guards
    guard = getattr(mod, 'vacuity', None)
    if guard and not reported:
        msg = guard(tot, tier)
        if msg:
            sys.stdout.write('HARNESS-ERROR property=%s vacuous run: %s\n' % (pid, msg))
            return 2
    return 1 if reported else 0


def replay_file(path):
    with open(path) as f:
        body = json.load(f)
    mod = load_prop(body['property'])
    if body.get('task_replay'):
        tr = body['task_replay']
        if run_single_task(body['property'], tr['task'], tr['tier'], tr['seed'], body['clause'], body['case']):
            sys.stdout.write('still violated after re-running its task: clause=%s\n' % body['clause'])
            sys.stdout.write('VIOLATION property=%s replay=%s\n' % (body['property'], path))
            return 1
        sys.stdout.write('replay of %s: clause %s no longer violated\n' % (path, body['clause']))
        return 0
    try:
        res = mod.replay(body['case'])
    except env.HarnessError:
        raise
    except Exception as ex:  # noqa
        res = [('library-exception', 'replay raised %s: %s' % (type(ex).__name__, ex))]
    for c, d in res:
        sys.stdout.write('still violated: clause=%s %s\n' % (c, d[:600]))
    if any(c == body['clause'] for c, _ in res):
        sys.stdout.write('VIOLATION property=%s replay=%s\n' % (body['property'], path))
        return 1
    sys.stdout.write('replay of %s: clause %s no longer violated\n' % (path, body['clause']))
    return 0
