"""Fixed-vector self-tests of the trusted base (refterm, reftok, model).  Exit 2 on failure."""
import sys


def main(quiet=False):
    from . import refterm as rt, reftok
    fails = []

    def eq(name, got, want):
        if got != want:
            fails.append('%s: got %r want %r' % (name, got, want))

    R = lambda p, init=None: rt.reduce_params(p, init)
    eq('empty=reset', R('', (('bold', (1,)),)), ((), False))
    eq('bold', R('1'), ((('bold', (1,)),), False))
    eq('bold-faint', R('1;2')[0], (('bold', (2,)),))
    eq('clear', R('1;22')[0], ())
    eq('fg ext', R('1;38;5;214')[0], (('bold', (1,)), ('fg', (38, 5, 214))))
    eq('fg rgb then bold', R('38;2;1;2;3;1')[0], (('bold', (1,)), ('fg', (38, 2, 1, 2, 3))))
    eq('reset mid', R('1;0;31')[0], (('fg', (31,)),))
    eq('unknown', R('99;31')[0], (('fg', (31,)),))
    eq('incomplete', R('31;38;5')[0], (('fg', (31,)),))
    eq('incomplete rgb', R('38;2;1;2')[0], ())
    eq('bare 38 at end', R('1;38'), ((('bold', (1,)),), False))
    eq('ambiguous 38;7', R('38;7')[1], True)
    eq('ambiguous >255', R('38;5;256')[1], True)
    eq('ambiguous empty param', R('1;;31')[1], True)
    eq('font clear', R('11;10')[0], ())
    eq('ul color', R('58;2;1;2;3;59;4')[0], (('ul', (4,)),))
    eq('bright', R('97;107')[0], (('bg', (107,)), ('fg', (97,))))
    d = rt.interpret('a\x1b[31mb\x1b[2Jc\x1b[md\x1b[1')
    eq('interp chars', d.chars, 'ab\x1b[2Jcd\x1b[1')
    eq('interp styles', [bool(s) for s in d.styles], [False] + [True] * 6 + [False] * 4)
    eq('interp nsgr', d.n_sgr, 2)
    eq('touches', sorted(rt.touches('38;5;1')), ['fg'])
    eq('touches reset', sorted(rt.touches('0')), ['*'])
    eq('strip', rt.strip_sgr('\x1b[1;2ma\x1b[mb\x1b[2Jc'), 'ab\x1b[2Jc')
    eq('tok1', reftok.tokenize('a\x1b[1mb\x1b[2J\x1b[3'), ('ab', [(1, '1', 'm'), (2, '2', 'J'), (2, '3', '')], False))
    eq('tok2', reftok.tokenize('a\x1b[1mb\x1b[2J\x1b[3', False, 'm'), ('ab\x1b[2J\x1b[3', [(1, '1', 'm')], False))
    eq('tok3', reftok.tokenize('\x1b[1\x1b[31m', True, None), ('31m', [(0, '1\x1b', '[')], True))
    eq('reins', reftok.reinsert('ab', [(1, '1', 'm'), (2, '2', 'J'), (2, '3', '')]), 'a\x1b[1mb\x1b[2J\x1b[3')
    from . import model
    eq('nf order-insensitive across groups', model.cell_nf(('1', '31')) == model.cell_nf(('31', '1')), True)
    eq('nf order-sensitive within group', model.cell_nf(('34', '31')) == model.cell_nf(('31', '34')), False)
    eq('nf set/clear', model.cell_nf(('22', '1')) == model.cell_nf(('1', '22')), False)
    # model ops cross-checked against Python itself
    from . import mops
    fails.extend(mops.selftest())
    if fails:
        for f in fails:
            sys.stdout.write('HARNESS-ERROR selftest: %s\n' % f)
        return 2
    if not quiet:
        sys.stdout.write('selftest ok\n')
    return 0
