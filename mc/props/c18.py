"""C18 - parse_graphic_sequence / settings_to_dict agree with a terminal's reading of the same code list.

Engine B: every code list of length 0..N over a 14-code alphabet (prefix tree) in three input forms x
add_erroneous, every sequence of <= 4 parameter groups, every single code 0..255 and every ordered pair of
known codes, and settings_to_dict on every (settings, prior state) pair of small lists - against mc/refterm.py.
"""
import itertools
from .. import env
from ..env import lib_parsing, lib_param, AnsiSetting
from .. import refterm as rt

ID = 'C18'
CODES = [0, 1, 4, 22, 31, 39, 38, 48, 58, 5, 2, 7, 214, 99]
GROUPSTR = ['1', '22', '31', '0', '38;5;7', '38;2;1;2;3', '48;5;7', '58;2;1;2;3', '99', '38', '38;5', '38;2;1;2']
NAME = {'bold': 'BOLDNESS', 'italic': 'ITALICS', 'ul': 'UNDERLINE', 'blink': 'BLINKING', 'swap': 'SWAP_BG_FG',
        'hide': 'VISIBILITY', 'strike': 'CROSSED_OUT', 'font': 'FONT_TYPE', 'spacing': 'SPACING', 'box': 'BOXING',
        'over': 'OVERLINE', 'fg': 'FG_COLOR', 'bg': 'BG_COLOR', 'ulc': 'UL_COLOR'}
ASSUMPTIONS = ['code lists whose terminal reading is ambiguous (38;x with x not in {2,5}, colour components > 255) '
               'are excluded from the state comparison and counted under excluded_ambiguous',
               'FONT_TYPE: 10 (default font) in the library state is read as "font group at its default"']


def maxlen(tier):
    return 5 if tier == 'quick' else 6


def codes(seed):
    c = list(CODES)
    c[4] = 30 + (1 + seed) % 8       # a one-code fg colour
    c[12] = [214, 200, 17, 255][seed % 4]
    return c


def tasks(tier, seed):
    n = maxlen(tier)
    out = [{'kind': 'singles'}, {'kind': 'pairs'}, {'kind': 'groups'}, {'kind': 'short'}]
    for a in range(len(CODES)):
        for b in range(len(CODES)):
            out.append({'kind': 'tree', 'prefix': [a, b], 'n': n})
    for a in range(len(CODES)):
        out.append({'kind': 's2d', 'first': a})
    out.append({'kind': 's2d', 'first': None})
    return out


def lib_state(d):
    """library effect dict -> {NAME: tuple of ints}; raises HarnessError on an unexpected shape."""
    out = {}
    for k, v in d.items():
        vals = tuple(v.to_list())
        if vals == (10,):
            continue
        out[k.name] = vals
    return out


def ref_state(frozen):
    return {NAME[g]: v for g, v in frozen}


def form_of(lst, form):
    if form == 'str':
        return ';'.join(str(c) for c in lst)
    if form == 'ints':
        return list(lst)
    return [str(c) for c in lst]


def check_list(lst, form, add_err):
    """lst: list of ints. Returns (violations, ambiguous)."""
    bad = []
    params = ';'.join(str(c) for c in lst)
    groups, st, amb, dropped = rt.ref_groups(params)
    arg = form_of(lst, form)
    try:
        settings = lib_parsing.parse_graphic_sequence(arg, add_err)
    except Exception as e:  # noqa
        return [('parse-raises', 'parse_graphic_sequence(%r, %s) raised %s: %s' % (arg, add_err, type(e).__name__, e))], amb
    try:
        strs = [str(s) for s in settings]
        if add_err:
            toks = []
            for s in settings:
                toks.extend(t for t in s.to_list() if isinstance(t, int))
            if toks != list(lst) and lst:
                bad.append(('erroneous-tokens', 'parse(%r, add_erroneous=True) -> %r loses/reorders tokens' % (arg, strs)))
        if amb:
            # ambiguous '38;x' readings: the reduced state must be one of the admissible ones
            adm = rt.admissible_states(params)
            if adm is not None and not add_err and lst:
                got = lib_state(lib_parsing.settings_to_dict(settings))
                if all(got != ref_state(a) for a in adm):
                    bad.append(('state', 'parse(%r, False) -> %r reduces to %r; admissible terminal states %r'
                                % (arg, strs, got, [ref_state(a) for a in adm])))
                return bad, False
            return bad, True
        if not lst:
            if strs != ['0']:
                bad.append(('empty-is-reset', 'empty sequence parsed as %r' % strs))
            return bad, False
        if (not add_err) or (not dropped):
            got = lib_state(lib_parsing.settings_to_dict(settings))
            want = ref_state(st)
            if got != want:
                bad.append(('state', 'parse(%r, %s) -> %r reduces to %r; terminal state %r'
                            % (arg, add_err, strs, got, want)))
            elif (not add_err) or (not dropped):
                # grouping: extended-colour groups kept intact (compare group texts that take effect)
                want_g = [';'.join(map(str, g)) for g in groups if len(g) > 1]
                it = iter(strs)
                if not all(any(w == s for s in it) for w in want_g):
                    bad.append(('grouping', 'parse(%r, %s) -> %r; extended-colour groups %r not kept intact in order'
                                % (arg, add_err, strs, want_g)))
    except Exception as e:  # noqa
        bad.append(('parse-raises', 'reducing parse(%r,%s): %s: %s' % (arg, add_err, type(e).__name__, e)))
    return bad, amb


def mk_old(frozen):
    return {lib_param.AnsiParamEffect[NAME[g]]: AnsiSetting(';'.join(map(str, v))) for g, v in frozen}


def check_s2d(l_set, l_old):
    """settings_to_dict(S, old) with S, old built independently from the reference reading."""
    bad = []
    g_set, _st, amb1, _d = rt.ref_groups(';'.join(map(str, l_set))) if l_set else ([], (), False, False)
    _g, st_old, amb2, _d2 = rt.ref_groups(';'.join(map(str, l_old))) if l_old else ([], (), False, False)
    if amb1 or amb2:
        return bad, True
    S = [AnsiSetting(';'.join(map(str, g))) for g in g_set]
    old = mk_old(st_old)
    snap_S = [(id(x), str(x)) for x in S]
    snap_old = [(k, id(v), str(v)) for k, v in old.items()]
    try:
        res = lib_parsing.settings_to_dict(S, old)
    except Exception as e:  # noqa
        return [('s2d-raises', '%s: %s' % (type(e).__name__, e))], False
    want = ref_state(rt.reduce_params(';'.join(';'.join(map(str, g)) for g in g_set), st_old)[0]) if g_set else ref_state(st_old)
    got = lib_state(res)
    if got != want:
        bad.append(('s2d-state', 'settings_to_dict(%r, %r) = %r; terminal %r' % ([str(x) for x in S], lib_state(old), got, want)))
    if [(id(x), str(x)) for x in S] != snap_S or len(S) != len(snap_S):
        bad.append(('s2d-mutates', 'settings list modified'))
    if [(k, id(v), str(v)) for k, v in old.items()] != snap_old:
        bad.append(('s2d-mutates', 'old dict modified: %r' % lib_state(old)))
    if res is old:
        bad.append(('s2d-mutates', 'result is the old dict itself'))
    # the same objects again after their lazily computed flags have been read: the reduction must not depend on it
    try:
        for x in list(S) + list(old.values()):
            x.valid, x.parsable, x.valid
        res2 = lib_parsing.settings_to_dict(S, old)
        if lib_state(res2) != got:
            bad.append(('s2d-after-flags', 'settings_to_dict(%r, %r) = %r, but %r once .valid / .parsable of the settings have been read'
                        % ([str(x) for x in S], lib_state(old), got, lib_state(res2))))
    except Exception as e:  # noqa
        bad.append(('s2d-raises', 'after reading the flags: %s: %s' % (type(e).__name__, e)))
    return bad, False


def run_list(lst, acc, forms=('str', 'ints', 'strs')):
    any_amb = False
    for form in forms:
        for add_err in (False, True):
            acc.evaluations += 1
            bad, amb = check_list(lst, form, add_err)
            any_amb = any_amb or amb
            if not amb:
                acc.validated += 1
            for clause, detail in bad:
                acc.violation(clause, {'kind': 'list', 'codes': list(lst), 'form': form, 'add_err': add_err}, detail)
    if any_amb:
        acc.counters['excluded_ambiguous'] += 1
    return any_amb


def run_task(task, acc):
    C = codes(acc.seed)
    k = task['kind']
    if k == 'singles':
        for c in range(256):
            acc.state_count += 1
            acc.transitions += 1
            run_list([c], acc)
            acc.nontrivial_count += 1
            acc.outcome(rt.reduce_params(str(c))[0])
        return
    if k == 'pairs':
        known = sorted(rt.KNOWN_CODES - {38, 48, 58})
        for a in known:
            for b in known:
                acc.state_count += 1
                acc.transitions += 1
                acc.current = [a, b]
                run_list([a, b], acc, forms=('ints',))
                acc.nontrivial_count += 1
                acc.outcome(rt.reduce_params('%d;%d' % (a, b))[0])
        return
    if k == 'groups':
        for n in range(1, 5):
            for combo in itertools.product(GROUPSTR, repeat=n):
                lst = [int(x) for x in ';'.join(combo).split(';')]
                acc.state_count += 1
                acc.transitions += 1
                run_list(lst, acc, forms=('str', 'ints'))
                acc.nontrivial_count += 1
        return
    if k == 's2d':
        firsts = [[]] if task['first'] is None else None
        sets = []
        if task['first'] is None:
            sets = [[]]
        else:
            f = C[task['first']]
            for n in range(0, 3):
                for rest in itertools.product(C, repeat=n):
                    sets.append([f] + list(rest))
        olds = [[]] + [[a] for a in C] + [[a, b] for a in C for b in C] + [[38, 5, 7], [48, 2, 1, 2, 3], [58, 5, 9, 4]]
        for ls in sets:
            for lo in olds:
                acc.evaluations += 1
                acc.transitions += 1
                bad, amb = check_s2d(ls, lo)
                if not amb:
                    acc.validated += 1
                    acc.nontrivial_count += 1
                for clause, detail in bad:
                    acc.violation(clause, {'kind': 's2d', 'set': ls, 'old': lo}, detail)
            acc.state_count += 1
        return
    if k == 'short':
        lists = [[]] + [[a] for a in C]
    else:
        pre = [C[i] for i in task['prefix']]
        lists = (pre + list(t) for n in range(0, task['n'] - 1) for t in itertools.product(C, repeat=n))
    for lst in lists:
        acc.state_count += 1
        if lst:
            acc.transitions += 1
        acc.current = lst
        amb = run_list(lst, acc)
        if not amb:
            st = rt.reduce_params(';'.join(map(str, lst)))[0] if lst else ()
            acc.outcome(st)
            if any(c in (38, 48, 58) for c in lst):
                acc.nontrivial_count += 1
                acc.sample({'kind': 'list', 'codes': lst, 'form': 'str', 'add_err': False})


def replay(case):
    if case['kind'] == 's2d':
        return check_s2d(case['set'], case['old'])[0]
    return check_list(case['codes'], case['form'], case['add_err'])[0]


def describe(tier, seed):
    return {
        'rule': 'every code list of length 0..%d over %r as ;-string / list of int / list of str x add_erroneous; every code '
                '0..255; every ordered pair of known codes; every sequence of <=4 groups over %r; settings_to_dict on every '
                '(list<=3, prior list<=2). A list is counted non-trivial when it contains an extended-colour introducer '
                '(tree part) or is a single/pair/group/s2d case; ambiguous lists are excluded from the state clause.'
                % (maxlen(tier), codes(seed), GROUPSTR),
        'bounds': {'max_len': maxlen(tier), 'alphabet': codes(seed)},
    }


def vacuity(tot, tier):
    if tot['nontrivial_count'] < 10000:
        return 'too few lists with extended-colour introducers'
    if len(tot['outcomes']) < 50:
        return 'fewer than 50 distinct terminal states reached'
    return None
