"""C19 - control-sequence parser lossless; cursor/erase/scroll helpers emit exactly one sequence.

Engine B: every string of length 0..N over a 9-symbol alphabet (prefix tree, property checked at every
node) x the 6 constructor flag combinations, against the reference tokenizer mc/reftok.py.
"""
import itertools
from .. import env
from ..env import lib_parsing, lib_mod
from .. import reftok

ID = 'C19'
SYMS = ['\x1b', '[', '1', ';', '?', 'm', 'A', ' ', '\xe9']
# boundary symbols of the final-byte range 0x40-0x7E and the byte just above it
EXTRA = ['@', '~', '\x7f']
FLAGS = [(ae, acc) for ae in (True, False) for acc in (None, 'm', 'mA')]
HELPERS = {
    'cursor_up_str': 'A', 'cursor_down_str': 'B', 'cursor_forward_str': 'C', 'cursor_backward_str': 'D',
    'cursor_back_str': 'D', 'cursor_next_line_str': 'E', 'cursor_previous_line_str': 'F',
    'cursor_horizontal_absolute_str': 'G', 'erase_in_display_str': 'J', 'erase_in_line_str': 'K',
    'scroll_up_str': 'S', 'scroll_down_str': 'T',
}
DEFAULTED = ['cursor_up_str', 'cursor_down_str', 'cursor_forward_str', 'cursor_backward_str', 'cursor_back_str',
             'cursor_next_line_str', 'cursor_previous_line_str']
NS = [-1, 0, 1, 2, 9, 10, 255, 10 ** 6]
ASSUMPTIONS = ['reference tokenizer mc/reftok.py (regular expression ESC [ [^@-~]* [@-~]?)',
               'inputs whose parameter bytes lie outside 0x30-0x3F are judged on the losslessness clauses only']


TOKS = ['a', 'bc', '\x1b[m', '\x1b[1;2H', '\x1b[2J', '\x1b[', '\x1b', '\x1b[31']


def maxlen(tier):
    return 6 if tier == 'quick' else 7


def tasks(tier, seed):
    n = maxlen(tier)
    out = [{'kind': 'helpers'}, {'kind': 'short'}]
    for a in range(len(SYMS)):
        for b in range(len(SYMS)):
            out.append({'kind': 'tree', 'prefix': [a, b], 'n': n})
    # removal points at large offsets (> 256): a long plain prefix followed by every string over a 4-symbol core
    for k in range(4):
        out.append({'kind': 'long', 'first': k, 'n': 6 if tier == 'quick' else 7})
    # the wider alphabet (with @, ~, DEL) one symbol shorter; only strings that use one of the extra symbols
    # token level: whole sequences and text pieces as symbols - many removal points in one string (the character tree
    # reaches two)
    for a in range(len(TOKS)):
        out.append({'kind': 'toks', 'first': a, 'n': 6 if tier == 'quick' else 7})
    # ... and deeper over three tokens (text, an SGR sequence, a non-SGR sequence): up to nine / eleven pieces
    for a in range(3):
        out.append({'kind': 'toks3', 'first': a, 'n': 9 if tier == 'quick' else 11})
    out.append({'kind': 'finals'})
    m = len(SYMS) + len(EXTRA)
    for a in range(m):
        for b in range(m):
            out.append({'kind': 'tree', 'prefix': [a, b], 'n': n - 1, 'wide': True})
    return out


def syms(seed):
    # the seed only rotates which digit / letter instantiate the symbol classes
    s = list(SYMS)
    s[2] = '123456789'[seed % 9]
    s[6] = 'ABCDEFGH'[seed % 8]
    return s


def check_string(s, allow, acc_t):
    """Returns list of (clause, detail)."""
    bad = []
    try:
        p = lib_parsing.ParsedAnsiControlSequenceString(s, allow, acc_t)
    except Exception as e:  # noqa
        return [('parser-raises', '%s: %s' % (type(e).__name__, e))]
    try:
        u = p.unformatted_str
        got = []
        for k in sorted(p.sequences):
            for q in p.sequences[k]:
                got.append((k, q.sequence, q.terminator))
    except Exception as e:  # noqa
        return [('parser-raises', 'reading result: %s: %s' % (type(e).__name__, e))]
    if reftok.reinsert(u, got) != s:
        bad.append(('lossless-reinsert', 'unformatted %r + sequences %r do not rebuild %r' % (u, got, s)))
    for name, fn in (('formatted_str', lambda: p.formatted_str if isinstance(p.formatted_str, str)
                      else p.formatted_str()), ('str', lambda: str(p)), ('repr', lambda: repr(p))):
        try:
            r = fn()
        except Exception as e:  # noqa
            bad.append((name + '-raises', '%s: %s' % (type(e).__name__, e)))
            continue
        if r != s:
            bad.append((name + '-differs', '%s gives %r for input %r' % (name, r, s)))
    # looking up every index (removal point or not) must leave the result as it is
    try:
        keys0 = sorted(p.sequences)
        for i in range(-1, len(u) + 2):
            try:
                p.sequences[i]
            except KeyError:
                pass
            i in p.sequences
            p.sequences.get(i)
        r = p.formatted_str if isinstance(p.formatted_str, str) else p.formatted_str()
        if sorted(k for k in p.sequences if p.sequences[k]) != keys0 or r != s or str(p) != s:
            bad.append(('lookup-changes-result', 'after looking up every index in sequences: removal points %r (were %r), formatted_str %r for input %r'
                        % (sorted(p.sequences), keys0, r, s)))
    except Exception as e:  # noqa
        bad.append(('parser-raises', 'looking up indices in sequences: %s: %s' % (type(e).__name__, e)))
    ru, rseqs, amb = reftok.tokenize(s, allow, acc_t)
    if not amb:
        if u != ru:
            bad.append(('unformatted', 'unformatted_str %r, reference %r' % (u, ru)))
        elif got != rseqs:
            bad.append(('sequences', 'sequences %r, reference %r' % (got, rseqs)))
    return bad


def check_helper(fn, args):
    bad = []
    f = getattr(lib_mod, fn)
    try:
        out = f(*args)
    except Exception as e:  # noqa
        return [('helper-raises', '%s%r: %s: %s' % (fn, tuple(args), type(e).__name__, e))]
    final = 'H' if fn == 'cursor_position_str' else HELPERS[fn]
    if not args:
        want = '\x1b[1' + final
    else:
        want = '\x1b[' + ';'.join(str(a) for a in args) + final
    if out != want:
        bad.append(('helper-output', '%s%r returned %r, documented %r' % (fn, tuple(args), out, want)))
    try:
        p = lib_parsing.ParsedAnsiControlSequenceString(out)
        seqs = [(k, q.sequence, q.terminator) for k in sorted(p.sequences) for q in p.sequences[k]]
        if p.unformatted_str != '' or len(seqs) != 1 or seqs[0][2] != final:
            bad.append(('helper-parse', '%s%r -> %r parsed as text %r, sequences %r'
                        % (fn, tuple(args), out, p.unformatted_str, seqs)))
    except Exception as e:  # noqa
        bad.append(('helper-parse', 'parser raised %s' % e))
    return bad


def run_task(task, acc):
    S = syms(acc.seed)
    if task['kind'] == 'helpers':
        cases = []
        for fn in HELPERS:
            for n in NS:
                cases.append((fn, [n]))
        for fn in DEFAULTED:
            cases.append((fn, []))
        for r in NS:
            for c in NS:
                cases.append(('cursor_position_str', [r, c]))
        for fn, args in cases:
            case = {'kind': 'helper', 'fn': fn, 'args': args}
            acc.current = case
            acc.evaluations += 1
            acc.transitions += 1
            acc.validated += 1
            acc.state_count += 1
            acc.nontrivial_count += 1
            acc.outcome(('helper', fn))
            for clause, detail in check_helper(fn, args):
                acc.violation(clause, case, detail, sig=clause)
            acc.sample(case)
        return
    if task['kind'] == 'long':
        core = [S[0], S[1], S[5], S[2]]          # ESC [ m digit
        pre = [S[2] * 300, S[8] * 257 + S[0] + S[1] + S[5], S[7] * 1000]
        strings = (p_ + core[task['first']] + ''.join(t) for p_ in pre for k in range(0, task['n']) for t in itertools.product(core, repeat=k))
    elif task['kind'] == 'toks':
        strings = (TOKS[task['first']] + ''.join(t) for k in range(0, task['n']) for t in itertools.product(TOKS, repeat=k))
    elif task['kind'] == 'finals':
        # every final byte 0x40-0x7E (and its two neighbours) in fixed frames: a final byte may be special to whatever the
        # implementation uses to put sequences back together ('{', '}', '%', '\\' ...)
        strings = []
        for f in range(0x3f, 0x80):
            c = chr(f)
            strings += ['a\x1b[1;2' + c + 'b', '\x1b[' + c, 'a\x1b[3' + c + '\x1b[m' + 'b\x1b[4' + c, '\x1b[' + c + c + '\x1b[1' + c]
    elif task['kind'] == 'toks3':
        T3 = [TOKS[0], TOKS[2], TOKS[3]]
        strings = (T3[task['first']] + ''.join(t) for k in range(0, task['n']) for t in itertools.product(T3, repeat=k))
    elif task['kind'] == 'short':
        strings = ['']
        for k in (1,):
            strings += [''.join(t) for t in itertools.product(S, repeat=k)]
    elif task.get('wide'):
        W = S + EXTRA
        pre = ''.join(W[i] for i in task['prefix'])
        strings = (x for x in (pre + ''.join(t) for k in range(0, task['n'] - 1) for t in itertools.product(W, repeat=k))
                   if any(e in x for e in EXTRA))
    else:
        pre = ''.join(S[i] for i in task['prefix'])
        strings = (pre + ''.join(t) for k in range(0, task['n'] - 1) for t in itertools.product(S, repeat=k))
    for s in strings:
        acc.state_count += 1           # one prefix-tree node
        if s:
            acc.transitions += 1       # the edge that appends its last symbol
        has = '\x1b[' in s
        if has:
            acc.nontrivial_count += 1
        for allow, acc_t in FLAGS:
            acc.evaluations += 1
            acc.validated += 1
            bad = check_string(s, allow, acc_t)
            if bad:
                case = {'kind': 'string', 's': s, 'allow': allow, 'acc': acc_t}
                for clause, detail in bad:
                    acc.violation(clause, case, detail, sig=clause)
        if has:
            _u, seqs, amb = reftok.tokenize(s, True, None)
            acc.outcome((len(seqs), ''.join(f for _i, _p, f in seqs), amb))
            acc.sample({'kind': 'string', 's': s, 'allow': True, 'acc': None})


def replay(case):
    if case['kind'] == 'helper':
        return check_helper(case['fn'], case['args'])
    return check_string(case['s'], case['allow'], case['acc'])


def describe(tier, seed):
    return {
        'rule': 'every string of length 0..%d over %r (and, one symbol shorter, over that alphabet plus @ ~ DEL) x 6 flag combinations; a node is non-trivial when it contains '
                'ESC [ ; helpers: every function x n in %r. states = prefix-tree nodes (+ helper calls), '
                'transitions = tree edges.' % (maxlen(tier), syms(seed), NS),
        'bounds': {'max_len': maxlen(tier), 'alphabet': syms(seed), 'flags': [list(map(repr, f)) for f in FLAGS]},
    }


def vacuity(tot, tier):
    if tot['nontrivial_count'] < 1000:
        return 'fewer than 1000 inputs contained a control sequence'
    if len(tot['outcomes']) < 20:
        return 'fewer than 20 distinct tokenisation shapes'
    return None
