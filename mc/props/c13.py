"""C13 - AnsiStr is equivalent to AnsiString; its str payload equals its rendering.

Engine A, twin simulation: constructor forms x settings; then every method the two classes share, with its
argument domain, on every pool value and (depth 2) on the distinct results of the first round.
"""
import io
import re
from .. import env
from ..env import AnsiString, AnsiStr, AnsiSetting
from .. import model, explore
from ..hist import build, mk_settings

ID = 'C13'
SHARED_EXCLUDED = {'encode': 'outside all properties (bytes of the rendering)'}
FORMAT_SPECS = ['', '>6', '*^7:bold']


def pool_hists(seed, tier):
    R = explore.roles(seed)
    hs = [[['plain', '']], [['plain', 'a']], [['plain', 'ab-Ab']], [['rainbow', 'ab']], [['rainbow', 'a-b a']],
          [['ctor', 'ab', R['R']]], [['parse', '\x1b[1mab\x1b[m-c']], [['plain', ' a\tb\n']]]
    for (s, e) in explore.ranges(3):
        hs.append([['plain', 'a-b'], ['apply', R['R'], s, e, True]])
        hs.append([['rainbow', 'aba'], ['apply', R['W'], s, e, True]])
    hs.append([['plain', 'abc'], ['apply', R['R'], 0, 2, True], ['apply', R['B'], 1, 3, True]])
    hs.append([['plain', 'abc'], ['apply', R['o'], 0, 2, True], ['apply', R['q'], 1, 3, True]])     # non-canonical / multi-group texts
    # two settings from the start, the inner one ending first: a piece cut at that point closes both at its end (the
    # order of those closing markers matters for a later seam merge)
    hs.append([['plain', 'abcd'], ['apply', R['R'], 0, 4, True], ['apply', R['W'], 0, 2, True]])
    hs.append([['ctor', 'Stra\xdfe \u0130i', R['W']]])     # characters whose case mapping changes the length, styled to the very end
    hs.append([['plain', 'abcd'], ['apply', R['R'], 0, 2, True], ['apply', R['W'], 0, 3, True], ['apply', R['U'], 0, 2, True]])     # three settings on one character
    hs.append([['plain', 'abcd'], ['apply', R['R'], 0, 4, True], ['apply', R['B'], 1, 4, True], ['apply', R['R'], 2, 3, True]])     # X, Y, X
    hs.append([['plain', 'abc'], ['apply', R['R'], 0, 3, True], ['apply', R['R'], 1, 2, True]])
    hs.append([['plain', 'ab'], ['apply', R['R'], 1, 2, True], ['apply', R['R'], 0, 2, True]])     # self-concatenation merges at the seam
    hs.append([['plain', 'ab'], ['apply', '[32;31', 0, 2, True]])
    hs.append([['plain', 'ab'], ['apply', '[xm', 0, 1, True]])
    hs.append([['rainbow', ' ab '], ['apply', R['W'], 0, 4, True]])
    hs.append([['plain', 'a\nb'], ['apply', R['U'], 0, 3, True]])
    if tier != 'quick':
        for (s, e) in explore.ranges(4):
            hs.append([['rainbow', 'a-ba'], ['apply', R['B'], s, e, False]])
            hs.append([['plain', 'AbcD'], ['apply', R['R'], s, e, True], ['apply', R['N'], 0, 4, True]])
    return hs


def menu(v, seed):
    """(method, args, kwargs) for one receiver.  Settings are given as code lists and materialised per call."""
    R = explore.roles(seed)
    t = v.base_str
    L = len(t)
    m = []
    for name in ('capitalize', 'casefold', 'lower', 'upper', 'swapcase', 'title', 'simplify', 'clear_formatting',
                 'is_formatting_parsable', 'is_formatting_valid', 'is_optimizable', 'isalnum', 'isalpha', 'isascii', 'isdecimal',
                 'isdigit', 'isidentifier', 'islower', 'isnumeric', 'isprintable', 'isspace', 'istitle', 'isupper',
                 '__len__', '__str__', 'base_str', '__iter__'):
        m.append((name, [], {}))
    pats = ['a', 'b', '-', 'ab', '', 'zz', ' ']
    for p in pats:
        for name in ('count', 'find', 'rfind', 'index', 'rindex', 'endswith'):
            m.append((name, [p], {}))
            m.append((name, [p, 1], {}))
            m.append((name, [p, -2, L], {}))
            m.append((name, [p, None, -1], {}))
        m.append(('__contains__', [p], {}))
        m.append(('removeprefix', [p], {}))
        m.append(('removesuffix', [p], {}))
        if p:
            for name in ('split', 'rsplit'):
                m.append((name, [p], {}))
                m.append((name, [p, 1], {}))
                m.append((name, [p, -2], {}))
            m.append(('partition', [p], {}))
            m.append(('rpartition', [p], {}))
        for new in ('', 'z', ['S', 'z', R['G']], ['T', 'zy', R['G']]):
            m.append(('replace', [p, new], {}))
            m.append(('replace', [p, new, 1], {}))
            m.append(('replace', [p, new, -2], {}))
    m.append(('__contains__', [['S', 'a', R['R']]], {}))
    m.append(('__contains__', [['T', 'a', R['R']]], {}))
    m.append(('__contains__', [['SELF']], {}))
    m.append(('__contains__', [5], {}))
    for name in ('split', 'rsplit'):
        m.append((name, [], {}))
        m.append((name, [None, 1], {}))
    m.append(('splitlines', [], {}))
    m.append(('splitlines', [True], {}))
    for name in ('strip', 'lstrip', 'rstrip'):
        m.append((name, [], {}))
        m.append((name, ['a '], {}))
        m.append((name, [None], {}))
    for name in ('center', 'ljust', 'rjust'):
        for w in (0, L, L + 1, L + 4):
            m.append((name, [w], {}))
            m.append((name, [w, '*'], {}))
        m.append((name, [L + 2, 'xx'], {}))
    for w in (0, L + 3):
        m.append(('zfill', [w], {}))
    for n in (0, 1, 8):
        m.append(('expandtabs', [n], {}))
    m.append(('expandtabs', [], {}))
    for (i, j) in ((None, None), (1, None), (None, -1), (1, -1), (-2, 10), (3, 1)):
        m.append(('clip', [i, j], {}))
        m.append(('__getitem__', [['slice', i, j]], {}))
    for k in (0, -1, L, -L - 1):
        m.append(('__getitem__', [k], {}))
        m.append(('ansi_settings_at', [k], {}))
        m.append(('settings_at', [k], {}))
    m.append(('__getitem__', [['slice', 0, None, 2]], {}))
    m.append(('__getitem__', ['x'], {}))
    for S in ([R['R']], [R['W']], [R['R'], R['W']], [], [R['G']]):
        for (i, j) in ((0, None), (1, -1), (-1, None), (0, L + 3)):
            for top in (True, False):
                m.append(('apply_formatting', [['SET', S], i, j, top], {}))
            m.append(('remove_formatting', [['SET', S], i, j], {}))
            m.append(('find_settings', [['SET', S], i, j], {}))
            m.append(('find_settings', [['SET', S], i, j, True], {}))
    m.append(('remove_formatting', [], {}))
    m.append(('remove_formatting', [None, 1], {}))
    m.append(('apply_formatting', ['no_such_name'], {}))
    m.append(('apply_formatting', [-1], {}))
    m.append(('apply_formatting', [1.5], {}))
    for pat, rx in (('a', False), ('A', False), ('a|b', True), ('.', False), ('b*', True)):
        for mc_ in (True, False):
            for cnt in (-1, 1, -2):
                m.append(('format_matching', [pat, ['SET', [R['G']]]], {'regex': rx, 'match_case': mc_, 'count': cnt}))
                m.append(('unformat_matching', [pat], {'regex': rx, 'match_case': mc_, 'count': cnt}))
                m.append(('unformat_matching', [pat, ['SET', [R['R']]]], {'regex': rx, 'match_case': mc_, 'count': cnt}))
    m.append(('apply_formatting_for_match', [['SET', [R['G']]], ['MATCH', 'a']], {}))
    m.append(('apply_formatting_for_match', [['SET', [R['G']]], ['MATCH', '(a)(b)?'], 1], {}))
    for other in (['lit', 'xy'], ['S', 'q', R['R']], ['T', 'q', R['R']], ['lit', ''], ['SELF'], ['S', 'q', R['R'], R['W']]):
        m.append(('__add__', [other], {}))
        m.append(('__iadd__', [other], {}))
        m.append(('join', [['SELF'], other], {}))
        m.append(('join', [other, ['SELF'], other], {}))
    m.append(('__add__', [5], {}))
    m.append(('join', [], {}))
    m.append(('join', [5], {}))
    for spec in (None, '', '>6', '*^7:bold', ' -<5:red', 'x', '+5'):
        for (o, rs, re_) in ((True, False, True), (False, True, False)):
            m.append(('to_str', [spec], {'optimize': o, 'reset_start': rs, 'reset_end': re_}))
        m.append(('__format__', [spec if spec is not None else ''], {}))
    return m


def materialise(arg, receiver, text):
    if isinstance(arg, list) and arg:
        tag = arg[0]
        if tag == 'S':
            return AnsiString(arg[1], *[AnsiSetting(c) for c in arg[2:]])
        if tag == 'T':
            return AnsiStr(arg[1], AnsiSetting(arg[2]))
        if tag == 'lit':
            return arg[1]
        if tag == 'SET':
            return mk_settings(arg[1])
        if tag == 'slice':
            return slice(*arg[1:])
        if tag == 'MATCH':
            return re.search(arg[1], text)
        if tag == 'SELF':
            return receiver
    return arg


def do_call(obj, name, args, kwargs, is_str, sink=None):
    """Perform the call the way each class spells it; returns the result value."""
    text = obj.base_str
    a = [materialise(x, obj, text) for x in args]
    if sink is not None:
        for x in a:
            if isinstance(x, (AnsiString, AnsiStr)) and x is not obj:
                sink.append((x, model.freeze_value(x)))
    if name == 'base_str':
        return obj.base_str
    if name == '__iter__':
        return list(obj)
    if name == 'join':
        return (AnsiStr if is_str else AnsiString).join(*a)
    if name == '__iadd__':
        o = obj
        o += a[0]
        return o
    if any(x is None and isinstance(y, list) and y and y[0] == 'MATCH' for x, y in zip(a, args)):
        raise LookupError('no match')      # the regex does not match this text: not a call of the method
    if is_str:
        return getattr(obj, name)(*a, **kwargs)
    # AnsiString: the non-in-place form
    if name in ('simplify', 'clear_formatting', 'apply_formatting', 'remove_formatting', 'format_matching',
                'unformat_matching', 'apply_formatting_for_match'):
        getattr(obj, name)(*a, **kwargs)     # mutators without a non-in-place form: run on the (private) copy
        return obj
    return getattr(obj, name)(*a, **kwargs)


_probed = set()


def payload_ok(a):
    want = a.to_str()
    buf = io.StringIO()
    buf.write(a)
    seen = {'str.__str__': str.__str__(a), "''.join": ''.join([a]), '%s': '%s' % (a,), 'file.write': buf.getvalue(),
            'str+""': str.__add__(a, '')}
    for k, v in seen.items():
        if v != want:
            return 'payload seen through %s is %r but the rendering is %r' % (k, v, want)
    return None


def compare(r1, r2, what):
    """r1 from AnsiString, r2 from AnsiStr."""
    if isinstance(r1, (list, tuple)) or isinstance(r2, (list, tuple)):
        if not (isinstance(r1, (list, tuple)) and isinstance(r2, (list, tuple))) or len(r1) != len(r2):
            return ('twin-shape', '%s: AnsiString gives %r, AnsiStr gives %r' % (what, desc(r1), desc(r2)))
        if r1 and all(isinstance(x, AnsiSetting) for x in list(r1) + list(r2)):
            if [str(x) for x in r1] != [str(x) for x in r2]:
                return ('twin-scalar', '%s: %r vs %r' % (what, desc(r1), desc(r2)))
            return None
        for k, (x, y) in enumerate(zip(r1, r2)):
            e = compare(x, y, '%s[%d]' % (what, k))
            if e:
                return e
        return None
    if isinstance(r1, AnsiString):
        if type(r2) is not AnsiStr:
            return ('twin-type', '%s: AnsiStr method returned %s' % (what, type(r2).__name__))
        a1, a2 = model.alpha_codes(r1), model.alpha_codes(r2)
        if a1[0] != a2[0]:
            return ('twin-text', '%s: text %r vs %r' % (what, a1[0], a2[0]))
        if not model.cells_equiv(a1[1], a2[1]):
            return ('twin-cells', '%s: %s' % (what, model.first_diff(a2[1], a1[1])))
        if model.renderings(r1) != model.renderings(r2) or str(r1) != str.__str__(r2):
            return ('twin-render', '%s: renderings differ: %r vs %r' % (what, str(r1), str.__str__(r2)))
        for spec in FORMAT_SPECS:
            if format(r1, spec) != format(r2, spec):
                return ('twin-render', '%s: format(%r) differs' % (what, spec))
        e = payload_ok(r2)
        if e:
            return ('payload', '%s: %s' % (what, e))
        from . import c09
        ch = model.canon_hash(model.content(r2))
        if ch not in _probed:
            _probed.add(ch)
            e = c09.deep_probe(model.content(r2))
            if e:
                return ('twin-result-inconsistent', '%s: the AnsiStr result is not a consistent value: %s' % (what, e))
        return None
    if isinstance(r2, (AnsiStr, AnsiString)):
        return ('twin-type', '%s: AnsiString gives %r but AnsiStr gives a %s' % (what, desc(r1), type(r2).__name__))
    if r1 != r2 or type(r1) is not type(r2):
        return ('twin-scalar', '%s: AnsiString gives %r, AnsiStr gives %r' % (what, r1, r2))
    return None


def desc(r):
    if isinstance(r, (AnsiString, AnsiStr)):
        return '%s(%r)' % (type(r).__name__, r.base_str)
    if isinstance(r, (list, tuple)):
        return [desc(x) for x in r]
    return r


def check_call(h, name, args, kwargs):
    """Returns (violations, result of the AnsiStr call or None)."""
    v1 = build(h)
    if isinstance(v1, AnsiStr):
        v1 = AnsiString(v1)
    v2 = AnsiStr(build(h))
    snap2 = model.freeze_value(v2)
    what = '%s%r%s' % (name, tuple(args), kwargs or '')
    e1 = e2 = None
    r1 = r2 = None
    try:
        r1 = do_call(v1, name, args, kwargs, False)
    except LookupError:
        return [], None
    except Exception as e:  # noqa
        e1 = e
    sink = []
    try:
        r2 = do_call(v2, name, args, kwargs, True, sink)
    except LookupError:
        return [], None
    except Exception as e:  # noqa
        e2 = e
    bad = []
    for (x, fz) in sink:
        # an operand handed to an AnsiStr method is still what it was, and (if an AnsiStr) still renders as its payload
        if not model.unchanged(x, fz):
            bad.append(('twin-argument-changed', '%s changed its %s argument: %s -> %s' % (what, type(x).__name__,
                                                                                        model.describe_obs(fz[0]), model.describe_obs(model.observe(x)))))
        elif isinstance(x, AnsiStr):
            e = payload_ok(x)
            if e:
                bad.append(('payload', '%s: argument afterwards: %s' % (what, e)))
    if e1 is not None or e2 is not None:
        if type(e1) is not type(e2):
            bad.append(('twin-exception', '%s: AnsiString %s, AnsiStr %s' % (what, 'raised %s(%s)' % (type(e1).__name__, e1) if e1 else 'returned',
                                                                           'raised %s(%s)' % (type(e2).__name__, e2) if e2 else 'returned')))
        return bad, None
    err = compare(r1, r2, what)
    if err:
        bad.append(err)
    if not isinstance(r1, AnsiString) and not any(isinstance(x, AnsiString) for x in (r1 if isinstance(r1, (list, tuple)) else [])):
        # a query left both receivers as they were: they must still render alike (a query that poisons a cache on
        # the never-rendered AnsiString shows here)
        try:
            if model.renderings(v1) != model.renderings(v2) or v1.is_optimizable() != v2.is_optimizable():
                bad.append(('twin-receiver-render', '%s: afterwards the AnsiString renders %r, the AnsiStr %r'
                            % (what, v1.to_str(), v2.to_str())))
        except Exception as ex:  # noqa
            bad.append(('twin-receiver-render', '%s: rendering the receivers afterwards raised %s' % (what, ex)))
    if not model.unchanged(v2, snap2):
        bad.append(('twin-receiver-changed', '%s changed the AnsiStr receiver' % what))
    return bad, r2


CTOR_SETTINGS = [[], ['SET1'], ['SETLIST'], ['bold;red'], ['SETX']]


def check_ctor(src_kind, h, si, seed):
    R = explore.roles(seed)
    sets = {'SET1': [AnsiSetting(R['R'])], 'SETLIST': [[AnsiSetting(R['R']), AnsiSetting(R['W'])]], 'bold;red': ['bold;red'],
            'SETX': [AnsiSetting(R['X'])]}
    st = CTOR_SETTINGS[si]
    args = sets[st[0]] if st else []
    v = build(h)
    if src_kind == 'raw':
        src1 = src2 = str(v)
    elif src_kind == 'text':
        src1 = src2 = v.base_str
    elif src_kind == 'AnsiString':
        src1, src2 = v, build(h)
    else:
        src1, src2 = AnsiStr(v), AnsiStr(build(h))
    what = 'ctor(%s, %s)' % (src_kind, st)
    try:
        a = AnsiString(src1, *args)
        b = AnsiStr(src2, *args)
    except Exception as e:  # noqa
        return [('ctor-raises', '%s raised %s: %s' % (what, type(e).__name__, e))]
    err = compare(a, b, what)
    bad = [err] if err else []
    if src_kind in ('AnsiString', 'AnsiStr') and not args:
        ta, ca = model.alpha_codes(v)
        if model.alpha_codes(b) != (ta, ca):
            bad.append(('ctor-copy', '%s does not reproduce its source' % what))
    return bad


def tasks(tier, seed):
    n = len(pool_hists(seed, tier))
    return [{'i': i} for i in range(n)]


def run_task(task, acc):
    tier = env.tier()
    h = pool_hists(acc.seed, tier)[task['i']]
    v = build(h)
    acc.state(model.canon_hash(v))
    acc.evaluations += 1
    # constructor forms
    for src in ('raw', 'text', 'AnsiString', 'AnsiStr'):
        for si in range(len(CTOR_SETTINGS)):
            case = {'kind': 'ctor', 'hist': h, 'src': src, 'si': si}
            acc.current = case
            acc.transitions += 1
            bad = check_ctor(src, h, si, acc.seed)
            if not bad:
                acc.validated += 1
            for clause, detail in bad:
                acc.violation(clause, case, detail, sig=clause + ':ctor:' + src)
            acc.nontriv(hash((task['i'], src, si)))
    # answers that are kept (and changed) by the caller
    case = {'kind': 'held', 'hist': h}
    acc.current = case
    acc.transitions += 1
    bad = check_held(h)
    if not bad:
        acc.validated += 1
    for clause, detail in bad:
        acc.violation(clause, case, detail, sig=clause + ':held')
    # pieces joined with values that continue their settings
    for k in range(1, len(v)):
        for side in ('tail', 'head'):
            case = {'kind': 'piececat', 'hist': h, 'k': k, 'side': side}
            acc.current = case
            acc.transitions += 1
            bad = check_piece_cat(h, k, side)
            if not bad:
                acc.validated += 1
            for clause, detail in bad:
                acc.violation(clause, case, detail, sig=clause + ':piececat')
    # shared methods, depth 1 and 2
    level = [(h, [])]
    seen = {model.canon_hash(v)}
    for depth in (1, 2):
        nxt = []
        for (hh, path) in level:
            recv = replay_path(hh, path)
            if recv is None:
                continue
            mm = menu(recv, acc.seed)
            if depth == 2:
                mm = mm[::5]      # every fifth probe on second-level receivers
            for name, args, kwargs in mm:
                case = {'kind': 'call', 'hist': hh, 'path': path, 'call': [name, args, kwargs]}
                acc.current = case
                acc.transitions += 1
                bad, r2 = check_path_call(hh, path, name, args, kwargs)
                if not bad:
                    acc.validated += 1
                for clause, detail in bad:
                    acc.violation(clause, case, detail, sig=clause + ':' + name)
                acc.outcome((name, repr(desc(r2))[:60]))
                if depth == 1 and isinstance(r2, AnsiStr) and len(nxt) < (12 if tier == 'quick' else 40):
                    ch = model.canon_hash(model.content(r2))
                    if ch not in seen:
                        seen.add(ch)
                        acc.state(ch)
                        nxt.append((hh, path + [[name, args, kwargs]]))
        level = nxt
    acc.sample({'kind': 'call', 'hist': h, 'path': [], 'call': ['center', [5, '*'], {}]})


def check_held(h):
    """The lists ansi_settings_at() hands out belong to the caller: kept while other indices are asked, and cleared by the
    caller, they neither change under the caller's hands nor change what the AnsiStr answers afterwards."""
    bad = []
    a = build(h)
    s = AnsiStr(a)
    n = len(a)
    idx = list(range(-1, n + 1))
    try:
        for order in (idx, idx[::-1], idx[::2] + idx[1::2]):
            held_a = {i: a.ansi_settings_at(i) for i in order}
            held_s = {i: s.ansi_settings_at(i) for i in order}
            for i in order:
                if [str(x) for x in held_s[i]] != [str(x) for x in held_a[i]]:
                    bad.append(('twin-held-answers', 'ansi_settings_at asked in the order %r, answers kept: AnsiStr gave %r for index %d, '
                                'AnsiString %r' % (order, [str(x) for x in held_s[i]], i, [str(x) for x in held_a[i]])))
                    return bad
            for i in order:
                held_s[i].clear()
                held_s[i].append(AnsiSetting('95'))
            for i in order:
                got = ([str(x) for x in s.ansi_settings_at(i)], s.settings_at(i))
                want = ([str(x) for x in a.ansi_settings_at(i)], a.settings_at(i))
                if got != want:
                    bad.append(('twin-held-answers', 'after the caller changed the lists ansi_settings_at() had returned, the AnsiStr '
                                'answers %r at index %d, the AnsiString %r' % (got, i, want)))
                    return bad
        if str.__str__(s) != str(a) or str(s) != str(a):
            bad.append(('twin-held-answers', 'rendering differs after the caller changed returned lists'))
    except Exception as e:  # noqa
        bad.append(('twin-held-answers', 'raised %s: %s' % (type(e).__name__, e)))
    return bad


def check_piece_cat(h, k, side):
    """A piece cut at k, then joined with a value that begins (ends) with exactly the settings of the piece's last (first)
    character: the seam merge looks at details of the piece (order of its closing markers) that no single call shows."""
    v, vs = build(h), AnsiStr(build(h))
    try:
        if side == 'tail':
            a, b = v[:k], vs[:k]
            op = AnsiString('q', *[AnsiSetting(str(x)) for x in a.ansi_settings_at(k - 1)])
            r1, r2 = a + op, b + AnsiStr(op)
        else:
            a, b = v[k:], vs[k:]
            op = AnsiString('q', *[AnsiSetting(str(x)) for x in a.ansi_settings_at(0)])
            r1, r2 = op + a, AnsiStr(op) + b
    except Exception as e:  # noqa
        return [('twin-raises', 'piece %s of %d then concatenation raised %s: %s' % (side, k, type(e).__name__, e))]
    e = compare(r1, r2, 'piece cut at %d (%s) joined with a value carrying the same settings' % (k, side))
    if e is None:
        for rev in (False, True):
            for x in r1.ansi_settings_at(0) or []:
                if r1.find_settings(x, reverse=rev) != r2.find_settings(x, reverse=rev):
                    e = ('twin-scalar', 'piece cut at %d (%s) + value: find_settings(%s, reverse=%r) gives %r on AnsiString, %r on AnsiStr'
                         % (k, side, x, rev, r1.find_settings(x, reverse=rev), r2.find_settings(x, reverse=rev)))
    return [e] if e else []


def replay_path(h, path):
    """The AnsiStr receiver reached from h through the calls in path (as AnsiString for menu building)."""
    v = AnsiStr(build(h))
    for name, args, kwargs in path:
        v = do_call(v, name, args, kwargs, True)
        if not isinstance(v, AnsiStr):
            return None
    return AnsiString(v)


class _PathHist:
    pass


def check_path_call(h, path, name, args, kwargs):
    if not path:
        return check_call(h, name, args, kwargs)
    # receivers built by AnsiStr methods: rebuild the twin pair through both classes
    v2 = AnsiStr(build(h))
    v1 = AnsiString(build(h)) if not isinstance(build(h), AnsiString) else build(h)
    for pn, pa, pk in path:
        v2 = do_call(v2, pn, pa, pk, True)
        v1 = do_call(v1, pn, pa, pk, False)
    what = 'after %r: %s%r%s' % ([p[0] for p in path], name, tuple(args), kwargs or '')
    e1 = e2 = r1 = r2 = None
    try:
        r1 = do_call(v1.copy() if name in ('__iadd__',) else v1, name, args, kwargs, False)
    except LookupError:
        return [], None
    except Exception as e:  # noqa
        e1 = e
    try:
        r2 = do_call(v2, name, args, kwargs, True)
    except LookupError:
        return [], None
    except Exception as e:  # noqa
        e2 = e
    if e1 is not None or e2 is not None:
        if type(e1) is not type(e2):
            return [('twin-exception', '%s: AnsiString %r, AnsiStr %r' % (what, e1, e2))], None
        return [], None
    err = compare(r1, r2, what)
    return ([err] if err else []), r2


def replay(case):
    _probed.clear()
    if case['kind'] == 'ctor':
        return check_ctor(case['src'], case['hist'], case['si'], 0)
    if case['kind'] == 'piececat':
        return check_piece_cat(case['hist'], case['k'], case['side'])
    if case['kind'] == 'held':
        return check_held(case['hist'])
    name, args, kwargs = case['call']
    return check_path_call(case['hist'], case['path'], name, args, kwargs)[0]


def selfcheck_table():
    a = {n for n in dir(AnsiString) if not n.startswith('_') and callable(getattr(AnsiString, n))}
    b = {n for n in dir(AnsiStr) if not n.startswith('_') and callable(getattr(AnsiStr, n))}
    v = AnsiString('ab')
    covered = {m[0] for m in menu(v, 0)}
    missing = sorted(n for n in (a & b) if n not in covered and n not in SHARED_EXCLUDED)
    if missing:
        raise env.HarnessError('C13 operation table does not cover shared methods %r' % missing)


def describe(tier, seed):
    selfcheck_table()
    v = AnsiString('ab-Ab')
    return {
        'rule': 'receivers: %d pool values (plain, rainbow, one/two-span, verbatim, parsed) and the distinct AnsiStr results of the '
                'first round (depth 2); per receiver ~%d calls covering every method the two classes share (checked against '
                'dir() at start-up; excluded: %r) with edge arguments; 4 constructor source kinds x 5 settings forms. Every AnsiStr '
                'result: text, cells, 8 renderings, 3 format specs equal to the AnsiString result; payload seen through '
                "str.__str__, ''.join, %%s, file.write equals to_str()." % (len(pool_hists(seed, tier)), len(menu(v, seed)), SHARED_EXCLUDED),
        'bounds': {'receivers': len(pool_hists(seed, tier))},
    }


def vacuity(tot, tier):
    if tot['transitions'] < 10000:
        return 'too few twin calls'
    return None
