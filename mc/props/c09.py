"""C09 - operations terminate, fail cleanly, and keep reachable values consistent.

(1) edge-argument sweep: every public method x its edge domain on every pool value, each call under a
watchdog; allowed outcomes: success, or TypeError/ValueError (IndexError for an integer index out of range; the
error str raises for the same call), with the receiver unchanged after a raise.
(2) history search: BFS with the full mutating alphabet (every in-place method and +=, including edge
arguments that succeed) with the deep consistency probe in every new state.
"""
import itertools
from .. import env
from ..env import AnsiString, AnsiStr, AnsiSetting
from .. import model, explore, watchdog
from ..hist import build, mk_settings

ID = 'C09'
BIG = 10 ** 9
PARTS = 16
ASSUMPTIONS = ['"terminates" is decided as: completes within 10^6 interpreted lines (calls normally take < 10^3)',
               'documented types: int where int is documented, str where str is documented; floats for indices and invalid '
               'regular expressions are outside the domain']


def selfref():
    l = [AnsiSetting('31')]
    l.append(l)
    return l


def sweep_calls(v):
    """(name, args, kwargs, allowed extra exception types)"""
    t = v.base_str
    L = len(t)
    c = []
    idx = [0, 1, -1, L, L + 1, -L - 1, BIG, -BIG, None]
    for i in idx:
        for j in (0, L + 1, -BIG, BIG, None, -1):
            c.append(('clip', [i, j], {}))
            c.append(('__getitem__', [slice(i, j)], {}))
            c.append(('apply_formatting', [AnsiSetting('31'), 0 if i is None else i, j], {}))
            c.append(('apply_formatting', [AnsiSetting('31'), 0 if i is None else i, j, False], {}))
            c.append(('remove_formatting', [None, 0 if i is None else i, j], {}))
            c.append(('remove_formatting', [AnsiSetting('31'), 0 if i is None else i, j], {}))
            c.append(('find_settings', [AnsiSetting('31'), 0 if i is None else i, j], {}))
            c.append(('find_settings', [AnsiSetting('31'), 0 if i is None else i, j, True], {}))
            for m in ('count', 'find', 'rfind', 'index', 'rindex', 'endswith'):
                c.append((m, ['a', i, j], {}))
                c.append((m, ['', i, j], {}))
    for i in (0, 1, -1, L, L - 1, -L, -L - 1, BIG, -BIG):
        c.append(('__getitem__', [i], {}))
        c.append(('ansi_settings_at', [i], {}))
        c.append(('settings_at', [i], {}))
    c.append(('__getitem__', [slice(0, None, 2)], {}))
    c.append(('__getitem__', [slice(None, None, -1)], {}))
    c.append(('__getitem__', ['a'], {}))
    c.append(('__getitem__', [None], {}))
    for w in (0, -5, L, L + 1, 10 ** 4, 'x', None, 10 ** 20, 2.5):     # 10**20: building the padding overflows, as in str
        for fill in (' ', '*', '', 'ab', 5, None):
            for m in ('center', 'ljust', 'rjust'):
                for inpl in (False, True):
                    c.append((m, [w, fill], {'inplace': inpl}))
                    c.append((m, [w, fill], {'inplace': inpl, 'extend_formatting': False}))
        c.append(('zfill', [w], {}))
        c.append(('zfill', [w], {'inplace': True}))
    pats = ['', 'a', t[:1], t, t + t, ' ', 5, None]
    for p in pats:
        for inpl in (False, True):
            c.append(('removeprefix', [p], {'inplace': inpl}))
            c.append(('removesuffix', [p], {'inplace': inpl}))
            c.append(('strip', [p], {'inplace': inpl}))
            c.append(('lstrip', [p], {'inplace': inpl}))
            c.append(('rstrip', [p], {'inplace': inpl}))
            for new in ('', 'zz', p, ['S'], ['T'], 5, None):
                for cnt in (-1, -BIG, 0, 1, BIG):
                    c.append(('replace', [p, new, cnt], {'inplace': inpl}))
        for k in (-1, 0, 1, BIG):
            c.append(('split', [p, k], {}))
            c.append(('rsplit', [p, k], {}))
        c.append(('partition', [p], {}))
        c.append(('rpartition', [p], {}))
        c.append(('__contains__', [p], {}))
        c.append(('count', [p], {}))
        c.append(('find', [p], {}))
        c.append(('index', [p], {}))
        c.append(('endswith', [p], {}))
        c.append(('assign_str', [p], {}))
        c.append(('__add__', [p], {}))
        c.append(('__iadd__', [p], {}))
        c.append(('join', [['SELF'], p], {}))
        c.append(('format_matching', [p, AnsiSetting('32')], {}))
        c.append(('format_matching', [p, AnsiSetting('32')], {'count': 0}))
        c.append(('unformat_matching', [p], {}))
        c.append(('unformat_matching', [p, AnsiSetting('31')], {'match_case': True, 'count': BIG}))
        c.append(('set_ansi_str', [p], {}))
    c.append(('assign_str', ['x' * 50], {}))
    c.append(('assign_str', [''], {}))
    for rx in ('', 'a*', '(?=a)', '.', '$', '^', 'a|', '\\b'):
        c.append(('format_matching', [rx, AnsiSetting('32')], {'regex': True}))
        c.append(('unformat_matching', [rx], {'regex': True, 'count': 1}))
    for cnt in (None, 'x', 1.5):      # a count of the wrong type: nothing may be applied before the error
        c.append(('format_matching', ['a', AnsiSetting('32')], {'count': cnt}))
        c.append(('unformat_matching', ['a'], {'count': cnt}))
        c.append(('format_matching', [t[:1] or 'a', AnsiSetting('32')], {'count': cnt, 'regex': True}))
    for n in (0, 1, -1, 10 ** 4, 'x', None):
        c.append(('expandtabs', [n], {}))
        c.append(('expandtabs', [n], {'inplace': True}))
    for k in (True, False, 0, 'x'):
        c.append(('splitlines', [k], {}))
    for m in ('capitalize', 'casefold', 'lower', 'upper', 'swapcase', 'title'):
        c.append((m, [], {}))
        c.append((m, [], {'inplace': True}))
    for m in ('simplify', 'clear_formatting', 'copy', 'is_formatting_valid', 'is_formatting_parsable', 'is_optimizable', '__len__',
              '__str__', '__repr__', 'isalnum', 'isalpha', 'isascii', 'isdecimal', 'isdigit', 'isidentifier', 'islower', 'isnumeric',
              'isprintable', 'isspace', 'istitle', 'isupper', '__iter__', 'split', 'rsplit', 'splitlines', 'strip', 'join0'):
        c.append((m, [], {}))
    bad_settings = ['no_such_name', -1, '-1', 1.5, None, b'31', {'a': 1}, ['SELFREF'], 'rgb(1,2)', 'rgb(x)', [None], '', [], ';;',
                    '[', '[m', 'bold;;red', 300, '300', 10 ** 9, 'color256(999)', ('bold', ['red', ('underline',)])]
    for s in bad_settings:
        c.append(('apply_formatting', [s], {}))
        c.append(('apply_formatting', [s, 1, 2, False], {}))
        c.append(('remove_formatting', [s], {}))
        c.append(('remove_formatting', [s, 1, 3], {}))
        c.append(('find_settings', [s], {}))
        c.append(('format_matching', ['a', s], {}))
        c.append(('unformat_matching', ['a', s], {}))
        c.append(('CTOR', [s], {}))
        c.append(('CTOR_STR', [s], {}))
    for spec in ('', None, '5', '>', '>5', '*^5', '+5', ' 5', 'x', ':', '::', ':bold', ':no_such', '>5:no_such', '<5:[xm', '99999',
                 '-^3:1', '>-4', 5):
        for (o, rs, re_) in ((True, False, True), (False, True, False)):
            c.append(('to_str', [spec], {'optimize': o, 'reset_start': rs, 'reset_end': re_}))
        c.append(('__format__', [spec], {}))
    for other in (5, None, ['S'], ['T'], ['SELF'], 'xy', ''):
        c.append(('__add__', [other], {}))
        c.append(('__iadd__', [other], {}))
        c.append(('__eq__', [other], {}))
        c.append(('__contains__', [other], {}))
        c.append(('join', [['SELF'], other, ['SELF']], {}))
        c.append(('join', [other], {}))
    return c


def mat(arg, recv):
    if isinstance(arg, list) and arg:
        if arg[0] == 'S':
            return AnsiString('q', AnsiSetting('35'))
        if arg[0] == 'T':
            return AnsiStr('q', AnsiSetting('35'))
        if arg[0] == 'SELF':
            return recv
        if arg[0] == 'SELFREF':
            return selfref()
        return [mat(x, recv) for x in arg]
    return arg


def invoke(v, name, args, kwargs):
    a = [mat(x, v) for x in args]
    if name == 'join':
        return AnsiString.join(*a)
    if name == 'join0':
        return AnsiString.join()
    if name == '__iadd__':
        v += a[0]
        return v
    if name == '__iter__':
        return list(v)
    if name == 'CTOR':
        return AnsiString(v, *a)
    if name == 'CTOR_STR':
        return AnsiStr(v, *a)
    return getattr(v, name)(*a, **kwargs)


STR_DELEGATES = {'count', 'find', 'rfind', 'index', 'rindex', 'endswith', 'split', 'rsplit', 'splitlines', 'partition', 'rpartition',
                 'expandtabs', 'removeprefix', 'removesuffix', 'strip', 'lstrip', 'rstrip', 'replace', '__contains__', 'center',
                 'ljust', 'rjust', 'zfill'}


def str_raises(t, name, args):
    """The exception type str raises for the same call on the base text (None if it does not raise)."""
    if name not in STR_DELEGATES:
        return None
    try:
        a = [x for x in args if not isinstance(x, list)]
        if len(a) != len(args):
            return None
        if name == '__contains__':
            a[0] in t
        else:
            getattr(t, name)(*a)
    except Exception as e:  # noqa
        return type(e)
    return None


def deep_probe(v):
    """Everything a later query / rendering / slice / concatenation could trip over."""
    err = model.self_check(v, deep=True) or model.closed_check(v)
    if err:
        return err
    try:
        L = len(v)
        if L <= 10:
            pts = list(range(-1, L + 2))
        else:
            pts = [-1, 0, 1, 2, L // 2, L - 2, L - 1, L, L + 1]      # long values (huge pads): bounds at both ends
        for i in pts:
            for j in pts:
                if j >= i:
                    r = v[i:j]
                    if L <= 6 and 0 <= i < j <= L:
                        e2 = model.closed_check(r)
                        if e2:
                            return 'slice [%d:%d] of the value: %s' % (i, j, e2)
        for i in (range(L) if L <= 10 else (0, 1, L // 2, L - 1, -1)):
            v[i]
        if L <= 64:
            list(v)
        if L <= 6:
            # one-step futures: removing over any range must work and leave a consistent value (a doubled or
            # dangling marker shows here before it shows anywhere else)
            for (s_, e_) in explore.ranges(L):
                w = v.copy()
                w.remove_formatting(None, s_, e_)
                e2 = model.self_check(w)
                if e2:
                    return 'after remove_formatting(None, %d, %d): %s' % (s_, e_, e2)
        v.find_settings(AnsiSetting('31'))
        v.find_settings(AnsiSetting('31'), reverse=True)
        AnsiString.join('x', v, v)
        AnsiStr(v)
        AnsiString(str(v))
        v.copy().simplify()
        if not (v == v.copy()):
            return 'value is not equal to its own copy'
    except Exception as e:  # noqa
        return 'later operation raised %s: %s' % (type(e).__name__, e)
    return None


def check_call(h, name, args, kwargs):
    v = build(h)
    t = v.base_str
    ch0 = model.freeze_value(v)
    what = '%s(%s%s)' % (name, ', '.join(repr(a)[:40] for a in args), (', ' + repr(kwargs)) if kwargs else '')
    state = {}

    def run():
        state['v'] = build(h)
        return invoke(state['v'], name, args, kwargs)
    try:
        res = watchdog.guarded(run)
    except watchdog.Hang as e:
        return [('hang', '%s on %r does not terminate: %s' % (what, t, e))], None
    except BaseException as e:  # noqa
        v = state['v']
        bad = []
        allowed = (TypeError, ValueError)
        ok = isinstance(e, allowed) and not isinstance(e, (UnicodeError,))
        if not ok and isinstance(e, IndexError) and name == '__getitem__' and isinstance(args[0], int):
            ok = True
        if not ok:
            se = str_raises(t, name, args)
            ok = se is not None and type(e) is se
        if not ok:
            bad.append(('undocumented-error', '%s on %r raised %s: %s' % (what, t, type(e).__name__, e)))
        if not model.unchanged(v, ch0):
            bad.append(('changed-after-error', '%s on %r raised %s and left the receiver changed: %s -> %s (or == differs)'
                        % (what, t, type(e).__name__, model.describe_obs(ch0[0]), model.describe_obs(model.observe(v)))))
        return bad, None
    return [], (state['v'], res)


def safe_canon(v):
    try:
        return model.canon(v)
    except Exception as e:  # noqa
        return 'unreadable (%s)' % e


def jsonable(args):
    out = []
    for a in args:
        if isinstance(a, slice):
            out.append(['SLICE', a.start, a.stop, a.step])
        elif isinstance(a, AnsiSetting):
            out.append(['SETTING', str(a)])
        elif isinstance(a, bytes):
            out.append(['BYTES', a.decode()])
        elif isinstance(a, dict):
            out.append(['DICT'])
        elif isinstance(a, tuple):
            out.append(['TUPLE'] + jsonable(list(a)))
        elif isinstance(a, list):
            out.append(['LIST'] + jsonable(a) if not (a and a[0] in ('S', 'T', 'SELF', 'SELFREF')) else a)
        else:
            out.append(a)
    return out


def unjson(args):
    out = []
    for a in args:
        if isinstance(a, list) and a:
            if a[0] == 'SLICE':
                out.append(slice(a[1], a[2], a[3]))
            elif a[0] == 'SETTING':
                out.append(AnsiSetting(a[1]))
            elif a[0] == 'BYTES':
                out.append(a[1].encode())
            elif a[0] == 'DICT':
                out.append({'a': 1})
            elif a[0] == 'TUPLE':
                out.append(tuple(unjson(a[1:])))
            elif a[0] == 'LIST':
                out.append(unjson(a[1:]))
            else:
                out.append(a)
        elif isinstance(a, list):
            out.append([])
        else:
            out.append(a)
    return out


# ------------------------------------------------------------------------------------------------------
# history search


def mut_alphabet(v, seed):
    R = explore.roles(seed)
    L = len(v)
    t = v.base_str
    ops = []
    rg = explore.ranges(L) + [(0, L + 2), (-1, None), (1, 1), (L, L + 1)]
    for c in (R['R'], R['W']):
        for (s, e) in rg:
            ops.append(['apply', c, s, e, True])
            ops.append(['apply', c, s, e, False])
            ops.append(['remove', c, s, e])
    for (s, e) in rg:
        ops.append(['remove', None, s, e])
    ops.append(['apply', R['N'], 0, None, False])
    # the same setting through the other documented spellings (name, enum member, int): applied twice over
    # overlapping ranges they must still be tracked as two separate applications
    for sp in ('name:bold', 'enum:BOLD', 'int:1', 'name:bold;fg_red'):
        for (s_, e_) in explore.ranges(L):
            ops.append(['apply', sp, s_, e_, True])
        ops.append(['remove', sp, 0, max(1, L - 1)])
    ops.append(['apply', '[xm', 0, 1, True])
    for w in (0, L + 1, L + 2):
        for ext in (True, False):
            for k in ('center', 'ljust', 'rjust'):
                ops.append([k, w, '*', True, ext])
    ops.append(['zfill', L + 2, True])
    ops.append(['assign', t + 'Q'])
    ops.append(['assign', t[:-1]])
    ops.append(['assign', t[:1]])
    ops.append(['assign', ''])
    ops.append(['assign', 'a-a'])
    ops.append(['simplify'])
    ops.append(['clear'])
    ops.append(['icat', ['lit', 'z']])
    ops.append(['icat', ['lit', '']])
    ops.append(['icat', ['ctor', 'z', R['R']]])
    ops.append(['icat', ['ctor', 'zy', R['W']]])
    ops.append(['icat', ['ctor', 'zq', R['q']]])          # an operand with a verbatim two-group setting (not parsable)
    ops.append(['apply', R['q'], 0, 1, True])
    ops.append(['apply', R['S'], 0, max(1, L - 1), True])  # a font that stops while text follows
    ops.append(['iselfcat'])
    for (i, j) in ((1, None), (None, -1), (0, 0), (1, 1), (-1, None), (0, L + 3)):
        ops.append(['clip', i, j, True])
    for p in (t[:1], t[-1:], '-', ''):
        ops.append(['strip', 'removeprefix', p, True])
        ops.append(['strip', 'removesuffix', p, True])
        ops.append(['strip', 'strip', p, True])
        if p:
            ops.append(['replace', p, '', -1, True])
            ops.append(['replace', p, 'ZZ', 1, True])
            ops.append(['replace', p, ['ctor', 'q', R['R']], -1, True])
            ops.append(['replace', p, ['ctor', 'q', R['q']], 1, True])       # a replacement with a verbatim two-group setting
    ops.append(['replace', '', '.', -1, True])
    ops.append(['case', 'upper', True])
    ops.append(['case', 'title', True])
    ops.append(['fmtmatch', 'a', [[R['G']]], False, False, -1])
    ops.append(['fmtmatch', '', [[R['G']]], False, False, -1])
    ops.append(['fmtmatch', 'a*', [[R['G']]], True, False, 2])
    ops.append(['unfmtmatch', 'a', [], False, False, -1])
    ops.append(['unfmtmatch', '.', [[R['R']]], True, True, 1])
    return ops


def small_alphabet(v, seed):
    """Reduced mutating alphabet for deep (depth 4+) searches: two roles, every range, the structural operations."""
    R = explore.roles(seed)
    L = len(v)
    ops = []
    for c in (R['R'], R['W']):
        for (s_, e_) in explore.ranges(L):
            ops.append(['apply', c, s_, e_, True])
            ops.append(['apply', c, s_, e_, False])
            ops.append(['remove', c, s_, e_])
    for (s_, e_) in explore.ranges(L):
        ops.append(['remove', None, s_, e_])
    if L <= 4:
        ops += [['icat', ['lit', 'z']], ['icat', ['ctor', 'z', R['R']]], ['iselfcat'], ['center', L + 2, '*', True, True],
                ['rjust', L + 1, '*', True, False], ['assign', v.base_str + 'Q'], ['replace', v.base_str[:1] or 'a', ['ctor', 'q', R['R']], -1, True]]
    if L >= 2:
        ops += [['clip', 1, None, True], ['clip', None, -1, True], ['assign', v.base_str[:-1]]]
    ops.append(['simplify'])
    return ops


def bfs_cfg(tier):
    import os
    if os.environ.get('VERIF_DEEP'):
        # exploration aid (not registered in MANIFEST): VERIF_DEEP=<depth> searches deeper with the reduced alphabet
        d = int(os.environ['VERIF_DEEP'])
        return [('plain', 'ab', d, 'small'), ('rainbow', 'ab', d, 'small'), ('plain', 'a', d, 'small'), ('restart1', '', d - 1, 'small')]
    if tier == 'quick':
        return [('plain', 'a', 2), ('plain', 'a-a', 2), ('rainbow', 'ab', 2), ('plain', '', 2), ('restart1', '', 1), ('restart2', '', 1), ('dup1', '', 1), ('dup2', '', 1), ('stack3', '', 1), ('esc', '', 1)]
    return [('plain', 'a', 3), ('plain', 'a-a', 2), ('rainbow', 'ab', 3), ('plain', '', 3), ('rainbow', 'a-a', 2), ('plain', 'ab', 3), ('restart1', '', 2), ('restart2', '', 2), ('dup1', '', 2), ('dup2', '', 2), ('stack3', '', 2), ('esc', '', 2)]


def sweep_pool(tier, seed):
    R = explore.roles(seed)
    hs = [[['plain', '']], [['plain', 'a']], [['rainbow', 'a-a']], [['ctor', 'ab', R['R']]], [['rainbow', 'ab\tc']],
          [['plain', 'abc'], ['apply', R['R'], 0, 2, True], ['apply', R['W'], 1, 3, True]],
          [['plain', 'abc'], ['apply', R['R'], 0, 3, True], ['apply', R['R'], 1, 2, True]],
          [['plain', ' a '], ['apply', R['B'], 0, 3, True]], [['plain', 'ab'], ['apply', '[xm', 0, 1, True]],
          [['parse', '\x1b[1ma\x1b[2Jb\x1b[mc']],
          # the less common effect groups, each stopping while text follows (font, frame, overline, spacing, blink ...)
          [['plain', 'abcd'], ['apply', R['S'], 0, 2, True], ['apply', R['E'], 1, 3, True], ['apply', R['O'], 0, 1, True],
           ['apply', R['J'], 2, 3, True], ['apply', R['K'], 1, 2, True], ['apply', R['C'], 0, 3, True], ['apply', R['H'], 3, 4, True]]]
    if tier != 'quick':
        for (s, e) in explore.ranges(3):
            hs.append([['rainbow', 'aba'], ['apply', R['W'], s, e, False]])
            hs.append([['plain', 'a-b'], ['apply', R['R'], s, e, True], ['apply', R['N'], 0, 3, True]])
    return hs


def tasks(tier, seed):
    out = []
    for i in range(len(sweep_pool(tier, seed))):
        for part in range(4):
            out.append({'kind': 'sweep', 'i': i, 'part': part})
    for ci in range(len(bfs_cfg(tier))):
        for part in range(PARTS):
            out.append({'kind': 'bfs', 'cfg': ci, 'part': part})
    out.append({'kind': 'first'})
    return out


# 'first' task: inputs this process has never seen before (a running number is part of each), used for the first time, the
# resulting object edited in place, then the same input used again.  Whatever the library remembers about an input (a
# parse memo, an interned setting, a lookup table built on first use) is then shared with - or was built from - an object
# that has changed since.  Both objects must stay consistent, and the second must equal what the first was before the edit.
FIRST_FORMS = [
    ('AnsiString(raw)', lambda n: (lambda: AnsiString('\x1b[1ma%d\x1b[31mb\x1b[m' % n))),
    ('AnsiString(raw, open at the end)', lambda n: (lambda: AnsiString('\x1b[4m%d' % n))),
    ('AnsiStr(raw) edited through AnsiString(...)', lambda n: (lambda: AnsiString(AnsiStr('\x1b[1ma%d\x1b[31mb\x1b[m' % n)))),
    ('AnsiString(text, rgb string)', lambda n: (lambda: AnsiString('ab', 'rgb(1,2,%d)' % (n % 256), 'bold'))),
    ('AnsiString(text, color256 string)', lambda n: (lambda: AnsiString('ab', 'bg_color256(%d)' % (n % 256)))),
    ('AnsiString(text, int)', lambda n: (lambda: AnsiString('ab', 30 + n % 8, 1))),
    ('AnsiString(text, names)', lambda n: (lambda: AnsiString('a%d' % n, 'bold;fg_red'))),
    ('simplify()', lambda n: (lambda: _simplified('a%d' % n))),
]
FIRST_EDITS = [
    ('apply_formatting(35)', lambda v: v.apply_formatting(AnsiSetting('35'))),
    ('apply_formatting(35, 1, 2, topmost=False)', lambda v: v.apply_formatting(AnsiSetting('35'), 1, 2, topmost=False)),
    ('remove_formatting()', lambda v: v.remove_formatting()),
    ('remove_formatting(None, 0, 1)', lambda v: v.remove_formatting(None, 0, 1)),
    ('+= itself as str', lambda v: v.__iadd__(str(v))),
    ("+= 'z'", lambda v: v.__iadd__('z')),
    ('assign_str(longer)', lambda v: v.assign_str(v.base_str + 'QQ')),
    ('clip(1, inplace)', lambda v: v.clip(1, inplace=True)),
    ('clear_formatting()', lambda v: v.clear_formatting()),
]


def _simplified(text):
    v = AnsiString(text, AnsiSetting('1'))
    v.apply_formatting(AnsiSetting('31'), 1, 2)
    v.simplify()
    return v


def check_first(fi, ei, n):
    fname, mk = FIRST_FORMS[fi][0], FIRST_FORMS[fi][1](n)
    ename, edit = FIRST_EDITS[ei]
    try:
        a = mk()
        q0 = model.query_vector(a)
        edit(a)
        err = model.healthy(a)
        if err:
            return [('first-use-shared', '%s, then %s: the edited object is inconsistent: %s' % (fname, ename, err))]
        b = mk()
        err = model.healthy(b)
        if err:
            return [('first-use-shared', '%s, %s on the result, then the same construction again: the second object is '
                     'inconsistent: %s' % (fname, ename, err))]
        q1 = model.query_vector(b)
        if q1 != q0:
            return [('first-use-shared', '%s, %s on the result, then the same construction again: the second object answers %s, '
                     'the first one answered %s before it was edited' % ((fname, ename) + first_query_diff(q1, q0)))]
    except (TypeError, ValueError) as e:
        return [('first-use-shared', '%s / %s raised %s: %s' % (fname, ename, type(e).__name__, e))]
    return []


def run_task(task, acc):
    tier = env.tier()
    seed = acc.seed
    if task['kind'] == 'first':
        n = 1000 + 97 * seed
        for fi in range(len(FIRST_FORMS)):
            for ei in range(len(FIRST_EDITS)):
                n += 1
                case = {'kind': 'first', 'form': fi, 'edit': ei, 'n': n}
                acc.current = case
                acc.transitions += 1
                bad = check_first(fi, ei, n)
                if not bad:
                    acc.validated += 1
                for clause, detail in bad:
                    acc.violation(clause, case, detail, sig=clause + ':' + FIRST_FORMS[fi][0])
        return
    if task['kind'] == 'sweep':
        h = sweep_pool(tier, seed)[task['i']]
        v = build(h)
        if task['part'] == 0:
            acc.state(model.canon_hash(v))
        calls = sweep_calls(v)
        for ci, (name, args, kwargs) in enumerate(calls):
            if ci % 4 != task['part']:
                continue
            case = {'kind': 'call', 'hist': h, 'call': [name, jsonable(args), kwargs]}
            acc.current = case
            acc.evaluations += 1
            acc.transitions += 1
            bad, ok = check_call(h, name, args, kwargs)
            if ok is not None:
                recv, res = ok
                err = deep_probe(recv)
                if err is None:
                    for x in (res if isinstance(res, (list, tuple)) else [res]):
                        if isinstance(x, AnsiString) and x is not recv:
                            err = deep_probe(x)
                            if err:
                                break
                        elif isinstance(x, AnsiStr):
                            err = deep_probe(AnsiString(x))
                            if err:
                                break
                if err:
                    bad.append(('inconsistent-after-success', '%s%r on %r succeeded but: %s' % (name, tuple(args), v.base_str, err)))
                acc.outcome((name, 'ok'))
            else:
                acc.outcome((name, 'raise'))
                acc.nontriv(hash((task['i'], ci)))
            if not bad:
                acc.validated += 1
            for clause, detail in bad:
                acc.violation(clause, case, detail, sig=clause + ':' + name)
        acc.sample({'kind': 'call', 'hist': h, 'call': ['center', [10000, '*'], {'inplace': True}]})
        return
    cfg_ = bfs_cfg(tier)[task['cfg']]
    lay, text, depth = cfg_[:3]
    small = len(cfg_) > 3
    part = task['part']
    R0 = explore.roles(seed)
    seed_hists = {'restart1': [['plain', 'a-a'], ['apply', R0['W'], 0, 3, True], ['apply', R0['R'], 1, 2, False]],
                  'restart2': [['plain', 'a-a'], ['apply', R0['R'], 0, 3, True], ['apply', R0['B'], 0, 3, True], ['remove', R0['R'], 0, 1]],
                  # three settings on one character, the outer two ending together, the middle one later (before the end)
                  # a base text that contains a complete SGR sequence (taken verbatim by assign_str)
                  'esc': [['plain', 'abzzzzz'], ['apply', R0['R'], 0, 5, True], ['assign', 'a\x1b[1mb']],
                  'stack3': [['plain', 'a-ab'], ['apply', R0['R'], 0, 2, True], ['apply', R0['W'], 0, 3, True], ['apply', R0['U'], 0, 2, True]]}

    def gen(v, hh):
        if len(v) > 7:
            return []
        ops = small_alphabet(v, seed) if small else mut_alphabet(v, seed)
        if len(hh) == len(h0):
            return ops[part::PARTS]
        return ops
    seen = {}
    seed_hists['dup1'] = explore.dup_hist('dup1', 'a-a', seed)
    seed_hists['dup2'] = explore.dup_hist('dup2', 'a-a', seed)
    h0 = seed_hists[lay] if lay in seed_hists else [[lay, text]]
    frontier = [h0]
    seen[model.canon_hash(build(h0))] = True
    for d in range(depth):
        nxt = []
        for hh in frontier:
            v = build(hh)
            for op in gen(v, hh):
                h2 = hh + [op]
                case = {'kind': 'hist', 'hist': h2}
                acc.current = case
                acc.transitions += 1

                def run(h2=h2):
                    return build(h2, reads=False)
                try:
                    w = watchdog.guarded(run)
                except watchdog.Hang as e:
                    acc.violation('hang', case, 'history does not terminate: %s' % e, sig='hang:' + op[0])
                    continue
                except env.HarnessError:
                    raise
                except (TypeError, ValueError) as e:
                    # clean failure is allowed; receiver-unchanged is checked by the sweep
                    acc.validated += 1
                    acc.counters['ops_raising_cleanly'] += 1
                    continue
                except Exception as e:  # noqa
                    acc.violation('undocumented-error', case, 'raised %s: %s' % (type(e).__name__, e), sig='undocumented-error:' + op[0])
                    continue
                try:
                    ch = model.canon_hash(w)
                except Exception as e:  # noqa
                    acc.violation('inconsistent-after-success', case, 'state unreadable: %s' % e, sig='inconsistent:' + op[0])
                    continue
                # an iterator taken before the operation must still end cleanly afterwards (the value may have shrunk)
                try:
                    v3 = build(hh)
                    it = iter(v3)
                    if len(v3):
                        next(it)
                    from ..hist import apply_op
                    apply_op(v3, op)
                    n_left = 0
                    for _ch in it:
                        n_left += 1
                        if n_left > 10000:
                            raise RuntimeError('iteration does not end')
                except env.HarnessError:
                    raise
                except (TypeError, ValueError):
                    pass        # the operation itself failed cleanly (handled above)
                except Exception as e:  # noqa
                    acc.violation('iterator-after-mutation', {'kind': 'iter', 'hist': hh, 'op': op},
                                  'an iterator taken before %r raises %s: %s when it is continued afterwards' % (op, type(e).__name__, e),
                                  sig='iterator-after-mutation:' + op[0])
                    continue
                # read transparency: the same operation after every kind of query must lead to the same observable value
                # (an answer remembered by a query must not survive the mutation that invalidates it) - once with one round
                # of queries right before the operation, once with a round after every step of the history, each time
                # continuing on a copy (a remembered answer must not travel with the copy either)
                rcase = None
                try:
                    qv = model.query_vector(w)
                    for variant in ('read', 'reads', 'read+copy'):
                        rcase = {'kind': 'read', 'hist': hh, 'op': op, 'variant': variant, 'seed_len': len(h0)}
                        w2 = build(read_variant(hh, op, variant, len(h0)), reads=False)
                        q2 = model.query_vector(w2)
                        if q2 != qv:
                            acc.violation('read-changes-future', rcase,
                                          'after %r the value answers %s, but %s when it has been queried (%s) before'
                                          % (op, first_query_diff(qv, q2)[0], first_query_diff(qv, q2)[1], variant),
                                          sig='read-changes-future:' + op[0])
                            break
                    else:
                        rcase = None
                except env.HarnessError:
                    raise
                except Exception as e:  # noqa
                    acc.violation('read-changes-future', rcase or {'kind': 'read', 'hist': hh, 'op': op, 'variant': 'read', 'seed_len': len(h0)},
                                  'after %r: querying before the operation makes it raise %s: %s' % (op, type(e).__name__, e),
                                  sig='read-changes-future:' + op[0])
                    continue
                if rcase is not None:
                    continue
                if ch in seen:
                    acc.validated += 1
                    continue
                seen[ch] = True
                acc.state(ch)
                err = deep_probe(w)
                if err:
                    acc.violation('inconsistent-after-success', case, err, sig='inconsistent:' + op[0] + ':' + err[:25])
                    continue        # quarantined: not expanded
                acc.validated += 1
                acc.nontriv(ch)
                nxt.append(h2)
        frontier = nxt
    acc.evaluations += len(seen)
    acc.sample({'kind': 'hist', 'hist': frontier[0] if frontier else h0})


def read_variant(hh, op, variant, seed_len):
    if variant == 'read':
        return hh + [['read'], op]
    inter = list(hh[:seed_len])
    for st in hh[seed_len:] + [op]:
        inter += [['read'], st] if variant == 'reads' else [['read'], ['copy'], st]
    return inter


def first_query_diff(a, b):
    if not (isinstance(a, tuple) and isinstance(b, tuple) and len(a) == len(b)):
        return (repr(a)[:200], repr(b)[:200])
    for x, y in zip(a, b):
        if x != y:
            return (repr(x)[:200], repr(y)[:200])
    return ('', '')


def replay(case):
    if case['kind'] == 'first':
        # (the replay uses a number of its own: the point is that the input is new to the process)
        replay.n = getattr(replay, 'n', 500000) + 1
        return check_first(case['form'], case['edit'], replay.n)
    if case['kind'] == 'iter':
        from ..hist import apply_op
        try:
            v3 = build(case['hist'])
            it = iter(v3)
            if len(v3):
                next(it)
            apply_op(v3, case['op'])
            list(itertools.islice(it, 10001))
            return []
        except (TypeError, ValueError):
            return []
        except Exception as e:  # noqa
            return [('iterator-after-mutation', '%s: %s' % (type(e).__name__, e))]
    if case['kind'] == 'read':
        try:
            w = build(case['hist'] + [case['op']], reads=False)
            w2 = build(read_variant(case['hist'], case['op'], case.get('variant', 'read'), case.get('seed_len', 1)), reads=False)
            return [] if model.query_vector(w) == model.query_vector(w2) else [('read-changes-future', 'differs')]
        except Exception as e:  # noqa
            return [('read-changes-future', '%s: %s' % (type(e).__name__, e))]
    if case['kind'] == 'call':
        name, jargs, kwargs = case['call']
        args = unjson(jargs)
        bad, ok = check_call(case['hist'], name, args, kwargs)
        if ok is not None:
            recv, res = ok
            err = deep_probe(recv)
            if err is None:
                for x in (res if isinstance(res, (list, tuple)) else [res]):
                    if isinstance(x, AnsiString) and x is not recv:
                        err = err or deep_probe(x)
                    elif isinstance(x, AnsiStr):
                        err = err or deep_probe(AnsiString(x))
            if err:
                bad.append(('inconsistent-after-success', err))
        return bad
    try:
        w = watchdog.guarded(lambda: build(case['hist']))
    except watchdog.Hang as e:
        return [('hang', str(e))]
    except (TypeError, ValueError):
        return []
    except Exception as e:  # noqa
        return [('undocumented-error', '%s: %s' % (type(e).__name__, e))]
    err = deep_probe(w)
    return [('inconsistent-after-success', err)] if err else []


def describe(tier, seed):
    v = AnsiString('a-a')
    return {
        'rule': '(1) sweep: %d pool values x ~%d calls each (every public method with edge arguments: empty patterns, widths 0 / '
                '10^4 / wrong type, fills of length 0/1/2, bounds +-(L+1) and +-10^9, counts -1/0/1/10^9, None, wrong-kind types, '
                'malformed settings incl. a self-containing list, malformed specs); (2) BFS over the mutating alphabet (~%d ops per '
                'state: apply/remove with in- and out-of-range bounds, pads, assign_str, simplify, clear, += (str, values, itself), '
                'in-place clip/strip/removeprefix/removesuffix/replace/case, format/unformat_matching) to the depth in bounds with a '
                'deep probe (self-check under WITH_ASSERTIONS, 8 renderings, every slice and index, find_settings, join, '
                'conversions, re-parse, simplify, == copy, closedness) in every new state; bad post-states are quarantined. '
                'Non-trivial: sweep calls that raise / distinct healthy states.' % (len(sweep_pool(tier, seed)), len(sweep_calls(v)),
                                                                               len(mut_alphabet(v, seed))),
        'bounds': {'bfs(layout, text, depth)': [list(map(str, c)) for c in bfs_cfg(tier)]},
    }


def vacuity(tot, tier):
    if len(tot['states']) < 500:
        return 'history search reached too few states'
    return None
