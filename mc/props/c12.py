"""C12 - padding / format-spec: text as format(), fill styled only when extending.

Engine A for values (BFS pools x every width x fill x flags through ljust/rjust/center/zfill), Engine B for
the spec grammar (every spec of the component product + every string of length <= 3 over a metacharacter
alphabet) through format(), to_str(spec) and the AnsiStr twin, against a reference spec parser and the
reference terminal.
"""
import itertools
import re
from .. import env
from ..env import AnsiString, AnsiStr, AnsiSetting
from .. import model, explore, refterm as rt
from ..hist import build

ID = 'C12'
FILLS = [' ', '*', ':', '+', '-', '5']
SPEC_FILL = [None, ' ', '*', ':', '+', '-', '5', '<']
SPEC_SIGN = [None, '+', '-']
SPEC_ALIGN = [None, '<', '>', '^']
SPEC_ANSI = [None, ':', ':bold', ':31;1', ':[1', ':red;bg_blue', ':no_such_name']
META = ['x', '<', '^', '+', '-', ' ', '3', ':']


def plan(tier):
    if tier == 'quick':
        return [(0, ('plain',), 'R', 1, False), (1, ('plain',), 'RBW', 2, False), (2, ('plain', 'rainbow'), 'RBW', 2, False),
                (3, ('plain', 'rainbow'), 'RW', 2, False)]
    return [(0, ('plain',), 'R', 1, False), (1, ('plain',), 'RBWX', 2, True), (2, ('plain', 'rainbow'), 'RBWX', 2, True),
            (3, ('plain', 'rainbow'), 'RBW', 2, False), (4, ('plain', 'rainbow'), 'RW', 2, False), (2, ('plain',), 'RB', 3, False)]


def tasks(tier, seed):
    out = []
    for t in explore.std_tasks(plan(tier), parts=4):
        t['kind'] = 'pad'
        out.append(t)
    out.append({'kind': 'pad', 'extra': True})
    for i in range(len(spec_values(seed))):
        for part in range(4):
            out.append({'kind': 'spec', 'value': i, 'part': part})
    return out


def spec_values(seed):
    R = explore.roles(seed)
    hs = [[['plain', '']], [['plain', 'a']], [['ctor', 'a', R['R']]], [['plain', 'ab']], [['rainbow', 'ab']],
          [['plain', 'ab'], ['apply', R['R'], 0, 1, True]], [['plain', 'ab'], ['apply', R['R'], 1, 2, True]],
          [['rainbow', 'abc']], [['plain', 'abc'], ['apply', R['B'], 1, 2, True]],
          [['plain', 'abc'], ['apply', R['R'], 0, 2, True], ['apply', R['W'], 1, 3, True]],
          [['rainbow', 'abc'], ['apply', R['W'], 0, 3, True]], [['plain', 'ab'], ['apply', R['N'], 0, 2, True]],
          # a stop-and-restart point in the middle (an apply over the whole padded result touches it)
          [['plain', 'abcd'], ['apply', R['W'], 0, 4, True], ['apply', R['R'], 1, 3, False]],
          [['plain', 'abcd'], ['apply', R['R'], 0, 2, True], ['apply', R['W'], 0, 3, True], ['apply', R['U'], 0, 2, True]]]
    return hs


# ------------------------------------------------------------------------------------------------------
# model


def pad_model(text, cells, kind, width, fill, extend):
    n = width - len(text)
    if n <= 0:
        return text, list(cells)
    first = cells[0] if (cells and extend) else ()
    last = cells[-1] if (cells and extend) else ()
    if kind == 'ljust':
        left, right = 0, n
    elif kind == 'rjust':
        left, right = n, 0
    else:
        left = n // 2
        right = n - left
    t2 = fill * left + text + fill * right
    return t2, [first] * left + list(cells) + [last] * right


def pad_text_by_python(text, kind, width, fill):
    if kind == 'ljust':
        return text.ljust(width, fill)
    if kind == 'rjust':
        return text.rjust(width, fill)
    return format(text, '%s^%d' % (fill, width))


_G = re.compile(r'(?:(?P<fill>.)?(?P<sign>[+-])?(?P<align>[<>^]))?(?P<width>[0-9]*)', re.S)
_A = re.compile(r'(.?[-+]?[<>^]?[0-9]*)(:.*)?', re.S)


def parse_part(part):
    m = _G.fullmatch(part)
    if not m:
        return None
    return {'fill': m.group('fill') or ' ', 'sign': m.group('sign'), 'align': m.group('align') or '<',
            'width': int(m.group('width')) if m.group('width') else None}


def parse_spec(spec):
    """Returns list of admissible readings; a reading is ('ok', components, ansi) or ('error',)."""
    m = _A.fullmatch(spec)
    readings = []
    if m:
        part, ansi = m.group(1), (m.group(2)[1:] if m.group(2) else None)
        comp = parse_part(part) if part else {'fill': ' ', 'sign': None, 'align': '<', 'width': None}
        readings.append(('ok', comp, ansi) if comp else ('error',))
    else:
        readings.append(('error',))
    if readings[0] == ('error',) and ':' in spec:
        part, ansi = spec.split(':', 1)
        comp = parse_part(part) if part else {'fill': ' ', 'sign': None, 'align': '<', 'width': None}
        if comp:
            readings.append(('ok', comp, ansi))
    return readings


def ansi_codes(ansi):
    """Codes of an ansi part, resolved through the library's own settings parser (C14 checks that one);
    returns None when it rejects the text."""
    if not ansi:
        return []
    try:
        v = AnsiString('x', ansi)
    except ValueError:
        return None
    return list(model.alpha_codes(v)[1][0])


def spec_model(h, text, cells, reading):
    """Expected outcome of format(v, spec) under one reading: 'error', or a dict with
       text   - the padded text (Python's format on the parsed components),
       cells  - per character: the padded cell from the independent pad model (no ansi part applied yet),
       ranged - per character: True where the ansi part applies,
       codes  - the ansi part's codes,
       fold   - display of "padding + apply_formatting on a copy" through the public API (what the statement
                says the result equals), as (chars, styles)."""
    if reading[0] == 'error':
        return 'error'
    _ok, comp, ansi = reading
    codes = ansi_codes(ansi)
    extend = comp['sign'] in (None, '+')
    kind = {'<': 'ljust', '>': 'rjust', '^': 'center'}[comp['align']]
    w = comp['width']
    t2, c2 = pad_model(text, cells, kind, w, comp['fill'], extend) if w is not None else (text, list(cells))
    if w is not None:
        py = pad_text_by_python(text, kind, w, comp['fill'])
        if py != t2:
            raise env.HarnessError('pad model disagrees with Python format: %r %r' % (t2, py))
    if extend:
        ranged = [True] * len(t2)
    else:
        n = (w or 0) - len(text)
        left = 0 if (n <= 0 or kind == 'ljust') else (n if kind == 'rjust' else n // 2)
        ranged = [left <= i < left + len(text) for i in range(len(t2))]
    if codes is None:
        # unknown name in the ansi part: must be rejected wherever there is something to apply it to
        return 'error' if any(ranged) else 'error-or-plain'
    out = {'text': t2, 'cells': c2, 'ranged': ranged, 'codes': codes}
    cp = build(h)
    if not extend and codes:
        cp.apply_formatting(ansi)
    if w is not None:
        getattr(cp, kind)(w, comp['fill'], inplace=True, extend_formatting=extend)
    if extend and codes:
        cp.apply_formatting(ansi)
    d = rt.interpret(cp.to_str())
    out['fold'] = (d.chars, d.styles)
    return out


# ------------------------------------------------------------------------------------------------------


def check_pad(h, text, cells, kind, width, fill, inplace, extend, twin=False):
    v = build(h)
    what = '%s(%r, %r, inplace=%r, extend_formatting=%r)' % (kind, width, fill, inplace, extend)
    try:
        if twin:
            vs = AnsiStr(v)
            r = getattr(vs, kind)(width, fill) if kind != 'zfill' else vs.zfill(width)
            if type(r) is not AnsiStr:
                return [('pad-type', 'AnsiStr.%s returned %s' % (kind, type(r).__name__))]
            r = model.content(r)
        elif kind == 'zfill':
            r = v.zfill(width, inplace=inplace)
        else:
            r = getattr(v, kind)(width, fill, inplace=inplace, extend_formatting=extend)
    except Exception as e:  # noqa
        return [('pad-raises', '%s raised %s: %s' % (what, type(e).__name__, e))]
    if inplace and not twin and r is not v:
        return [('pad-inplace-identity', '%s did not return the receiver' % what)]
    mk = 'rjust' if kind == 'zfill' else kind
    mf = '0' if kind == 'zfill' else fill
    wt, wc = pad_model(text, cells, mk, width, mf, True if kind == 'zfill' else extend)
    if pad_text_by_python(text, mk, width, mf) != wt:
        raise env.HarnessError('pad model disagrees with Python')
    t2, c2 = model.alpha_codes(r)
    if t2 != wt:
        return [('pad-text', '%s on %r gives %r, expected %r' % (what, text, t2, wt))]
    if not model.cells_equiv(c2, wc):
        return [('pad-cells', '%s on %r %s: %s' % (what, text, cells, model.first_diff(c2, wc)))]
    err = model.closed_check(r) or model.self_check(r)
    if err:
        return [('pad-not-closed', '%s on %r %s: %s' % (what, text, cells, err))]
    return []


def check_spec(h, text, cells, ch0, spec, entry):
    v = build(h)
    readings = parse_spec(spec)
    wants = [spec_model(h, text, cells, r) for r in readings]
    what = '%s(%r) on %r %s' % (entry, spec, text, cells)
    try:
        if entry == 'format':
            out = format(v, spec)
        elif entry == 'fstring':
            out = f'{v:{spec}}' if '{' not in spec and '}' not in spec else format(v, spec)
        elif entry == 'to_str':
            out = v.to_str(spec)
        else:
            out = AnsiStr(v).to_str(spec) if entry == 'str_to_str' else format(AnsiStr(v), spec)
    except ValueError as e:
        if 'error' in wants or 'error-or-plain' in wants:
            return []
        return [('spec-rejected', '%s raised ValueError (%s) but the spec is in the grammar: %r' % (what, e, readings[0]))]
    except Exception as e:  # noqa
        return [('spec-wrong-error', '%s raised %s: %s' % (what, type(e).__name__, e))]
    bad = []
    if not model.unchanged(v, ch0):
        bad.append(('spec-mutates', '%s changed the receiver' % what))
    if 'error-or-plain' in wants:
        return bad
    oks = [w for w in wants if w != 'error']
    if not oks:
        return bad + [('spec-accepted', '%s returned %r but the spec is outside the grammar' % (what, out))]
    d = rt.interpret(out)
    errs = []
    for w in oks:
        e = judge(d, w)
        if e is None:
            return bad
        errs.append(e)
    clause, detail = errs[0]
    bad.append((clause, '%s: %s (output %r)' % (what, detail, out)))
    return bad


def judge(d, w):
    """Compare the displayed output with one admissible expectation."""
    if d.chars != w['text']:
        return ('spec-text', 'displays %r, expected %r' % (d.chars, w['text']))
    codes = tuple(w['codes'])
    st_codes = dict(model.style_of(codes)) if codes else {}
    for i, cell in enumerate(w['cells']):
        if not codes or not w['ranged'][i]:
            # no ansi part here: the independent pad model decides
            if d.styles[i] != model.style_of(cell):
                return ('spec-style', 'char %d displays %s, expected %s = %s' % (i, d.styles[i], list(cell), model.style_of(cell)))
        elif not cell:
            # nothing underneath: exactly the ansi part
            if d.styles[i] != model.style_of(codes):
                return ('spec-style', 'char %d displays %s, expected the ansi part %s alone' % (i, d.styles[i], list(codes)))
        else:
            # the ansi part sits somewhere in the cell (apply_formatting's documented precedence decides where):
            # every effect group not touched by it is as in the pad model
            want = dict(model.style_of(cell))
            got = dict(d.styles[i])
            touched = set()
            for c in codes:
                t = rt.touches(c)
                touched |= set(rt.GROUPS) if '*' in t else t
            for g in rt.GROUPS:
                if g not in touched and got.get(g) != want.get(g):
                    return ('spec-style', 'char %d: effect %s displays %s, expected %s' % (i, g, got.get(g), want.get(g)))
    # first character of the applied range shows the ansi part's effects (C06 topmost clause)
    if codes and any(w['ranged']):
        i0 = w['ranged'].index(True)
        got = dict(d.styles[i0])
        for g, val in st_codes.items():
            if got.get(g) != val:
                return ('spec-style', 'first character of the range (%d) displays %s=%s, the ansi part gives %s' % (i0, g, got.get(g), val))
    if (d.chars, d.styles) != w['fold']:
        return ('spec-fold', 'display differs from padding + apply_formatting on a copy: %r vs %r' % (d.styles, w['fold'][1]))
    return None


def all_specs(L):
    widths = [None, '0', '2', str(L), str(L + 1), str(L + 4), '05']
    seen = set()
    for fill, sign, align, width, ansi in itertools.product(SPEC_FILL, SPEC_SIGN, SPEC_ALIGN, widths, SPEC_ANSI):
        s = (fill or '') + (sign or '') + (align or '') + (width or '') + (ansi or '')
        if s not in seen:
            seen.add(s)
            yield s
    for k in range(1, 4):
        for t in itertools.product(META, repeat=k):
            s = ''.join(t)
            if s not in seen:
                seen.add(s)
                yield s


def extra_pad_values(seed):
    """Values whose end was produced by a slice / concatenation (the place where a style can be left open)."""
    R = explore.roles(seed)
    hs = []
    for k in (1, 2):
        hs.append([['plain', 'abc'], ['apply', R['W'], 0, k, True], ['apply', R['W'], 0, 3, True], ['slice', 0, k]])
        hs.append([['plain', 'abc'], ['apply', R['W'], k, 3, True], ['apply', R['W'], 0, 3, True], ['slice', k, None]])
        hs.append([['rainbow', 'abc'], ['apply', R['R'], 0, 3, True], ['slice', 0, k], ['cat', ['ctor', 'z', R['R']]]])
        hs.append([['plain', 'abc'], ['apply', R['R'], 0, 3, True], ['apply', R['B'], k, 3, False], ['slice', 0, k + 1]])
    hs.append([['plain', 'ab'], ['apply', R['R'], 0, 2, True], ['center', 4, '*', True, True], ['slice', 1, 3]])
    # texts that start with a sign or are digits only (a sign-aware or number-aware pad would treat them differently)
    hs += [[['ctor', '-5', R['R']]], [['rainbow', '+a-']], [['plain', '-']], [['rainbow', '007']]]
    # texts that consist of a fill character only (a pad that looks for the text inside the padded result finds it at 0)
    hs += [[['rainbow', '--']], [['rainbow', '  ']], [['rainbow', '00']], [['rainbow', '**']], [['rainbow', ':']]]
    hs.append([['plain', 'abcd'], ['apply', R['R'], 0, 2, True], ['apply', R['W'], 0, 3, True], ['apply', R['U'], 0, 2, True]])
    hs.append([['plain', 'abcd'], ['apply', R['R'], 0, 4, True], ['apply', R['B'], 1, 4, True], ['apply', R['R'], 2, 3, True]])
    return [(h, build(h)) for h in hs]


class _P:
    pass


def run_task(task, acc):
    quick = env.tier() == 'quick'
    if task['kind'] == 'pad':
        if task.get('extra'):
            pool = _P()
            pool.items = extra_pad_values(acc.seed)
        else:
            pool = explore.std_pool(task, acc.seed, acc)
        for h, v in pool.items:
            text, cells = model.alpha_codes(v)
            L = len(text)
            acc.state(model.canon_hash(v))
            acc.evaluations += 1
            explore.shape_counters(acc, cells)
            for kind in ('ljust', 'rjust', 'center'):
                for width in list(range(0, L + 5)) + [L + 301, L + 600]:     # + pads that move change points beyond offset 256
                    for fill in (FILLS if width <= L + 4 else FILLS[1:2]):
                        for inplace in (False, True):
                            if inplace and quick and fill not in (' ', ':'):
                                continue      # quick tier: in-place variants with two of the six fills
                            for extend in (True, False):
                                case = {'kind': 'pad', 'hist': h, 'op': [kind, width, fill, inplace, extend, False]}
                                acc.current = case
                                acc.transitions += 1
                                bad = check_pad(h, text, cells, kind, width, fill, inplace, extend)
                                if not bad:
                                    acc.validated += 1
                                for clause, detail in bad:
                                    acc.violation(clause, case, detail, sig=clause + ':' + kind + (':ext' if extend else ':noext'))
                        if quick and fill not in ('*', '+'):
                            continue
                        case = {'kind': 'pad', 'hist': h, 'op': [kind, width, fill, False, True, True]}
                        acc.transitions += 1
                        bad = check_pad(h, text, cells, kind, width, fill, False, True, twin=True)
                        if not bad:
                            acc.validated += 1
                        for clause, detail in bad:
                            acc.violation(clause, case, detail, sig=clause + ':' + kind + ':twin')
                    if width > L and cells and (cells[0] or cells[-1]):
                        acc.nontriv(hash((model.chash(tuple(cells)), kind, width)))
            for width in range(0, L + 5):
                for inplace in (False, True):
                    case = {'kind': 'pad', 'hist': h, 'op': ['zfill', width, '0', inplace, True, False]}
                    acc.transitions += 1
                    bad = check_pad(h, text, cells, 'zfill', width, '0', inplace, True)
                    if not bad:
                        acc.validated += 1
                    for clause, detail in bad:
                        acc.violation(clause, case, detail, sig=clause + ':zfill')
            acc.sample({'kind': 'pad', 'hist': h, 'op': ['center', L + 3, '*', False, True, False]})
        return
    h = spec_values(acc.seed)[task['value']]
    v = build(h)
    text, cells = model.alpha_codes(v)
    ch0 = model.freeze_value(v)
    if task['part'] == 0:
        acc.state(model.canon_hash(v))
    entries = ['format', 'to_str', 'str_to_str', 'fstring', 'str_format']
    for i, spec in enumerate(all_specs(len(text))):
        if i % 4 != task['part']:
            continue
        acc.state_count += 1      # one node of the spec language per (value, spec)
        for entry in (entries if i % 8 < 4 else entries[:3]):
            case = {'kind': 'spec', 'hist': h, 'spec': spec, 'entry': entry}
            acc.current = case
            acc.transitions += 1
            acc.evaluations += 1
            bad = check_spec(h, text, cells, ch0, spec, entry)
            if not bad:
                acc.validated += 1
            for clause, detail in bad:
                acc.violation(clause, case, detail, sig=clause)
        rd = parse_spec(spec)
        acc.outcome((rd[0][0], len(rd)))
        if rd[0][0] == 'ok' and rd[0][1]['width']:
            acc.nontrivial_count += 1
        acc.sample({'kind': 'spec', 'hist': h, 'spec': spec, 'entry': 'format'})


def replay(case):
    h = case['hist']
    v = build(h)
    text, cells = model.alpha_codes(v)
    if case['kind'] == 'pad':
        kind, width, fill, inplace, extend, twin = case['op']
        return check_pad(h, text, cells, kind, width, fill, inplace, extend, twin=twin)
    return check_spec(h, text, cells, model.freeze_value(v), case['spec'], case['entry'])


def describe(tier, seed):
    return {
        'rule': 'pads: every state of the BFS pools x ljust/rjust/center x width 0..L+4 x fill %r x inplace x extend_formatting '
                '(+ AnsiStr twin, zfill); specs: 12 values x every spec of fill%r x sign%r x align%r x 7 widths x ansi%r plus every '
                'string of length <=3 over %r, through format / to_str / AnsiStr.to_str / f-string / format(AnsiStr). Reference: '
                'fill-first spec parser (colon-first reading also admitted where the fill-first one is invalid), Python format() '
                'for the text, cell model for the styles, reference terminal for the rendered output.'
                % (FILLS, SPEC_FILL, SPEC_SIGN, SPEC_ALIGN, SPEC_ANSI, META),
        'bounds': {'plan(L, layouts, roles, depth, structural)': [list(map(str, p)) for p in plan(tier)]},
    }


def vacuity(tot, tier):
    if tot['nontrivial_count'] < 1000 or len(tot['nontrivial']) < 500:
        return 'too few padding cases'
    return None
