"""C05 - concatenation keeps each operand's per-character styles; no bleed at the seam.

Engine A, binary transitions: all ordered pairs (a, b) of two BFS pools (different texts so that text order is
visible), a with itself, empty / str / AnsiStr operands; a + b, a += b, join(a, b[, c]), AnsiStr twins; and for
every pool value every split point k: v[:k] + v[k:].
"""
from .. import env
from ..env import AnsiString, AnsiStr, AnsiSetting
from .. import model, explore, refterm as rt
from ..hist import build

ID = 'C05'
K = 48


def cfg(tier):
    if tier == 'quick':
        return {'La': 2, 'Lb': 2, 'roles': 'RBW', 'da': 2, 'db': 2, 'struct': True, 'extra': [(1, 'RBX', 2), (3, 'RB', 1), (3, 'eg', 2), (2, 'oq', 1)]}
    return {'La': 2, 'Lb': 2, 'roles': 'RBWX', 'da': 3, 'db': 2, 'struct': False,
            'extra': [(1, 'RBXW', 3), (3, 'RBW', 2), (2, 'RBW', 2, True), (4, 'RB', 2), (3, 'egmB', 2), (4, 'eg', 2), (2, 'oqW', 2)]}


def tasks(tier, seed):
    return [{'part': k} for k in range(K)] + [{'part': 'split', 'k': k} for k in range(8)] + [{'part': 'vb', 'k': k} for k in range(8)]


def vb_pools(tier, seed):
    """Both operands from small pools over a verbatim two-group setting and a colour that conflicts with one of its groups:
    the seam merge has to get precedence right for settings that touch more than their first code says."""
    d = 2
    ta = {'L': 2, 'layout': 'plain', 'roles': 'YB', 'depth': d, 'struct': False, 'part': 0, 'parts': 1}
    A = explore.std_pool(ta, seed).items
    gen = explore.std_gen(ta, seed)
    B = explore.bfs([[['plain', explore.letters(seed + 7, 2)]]], gen, d).items
    return A, B


def pools(tier, seed):
    c = cfg(tier)
    ta = {'L': c['La'], 'layout': 'plain', 'roles': c['roles'], 'depth': c['da'], 'struct': c['struct'], 'part': 0, 'parts': 1}
    tb = {'L': c['Lb'], 'layout': 'plain', 'roles': c['roles'], 'depth': c['db'], 'struct': False, 'part': 0, 'parts': 1}
    A = explore.std_pool(ta, seed).items
    # b side: shifted letters so texts differ
    text_b = explore.letters(seed + 7, c['Lb'])
    gen = explore.std_gen(tb, seed)
    B = explore.bfs([[['plain', text_b]], [['rainbow', text_b]], [['plain', '']]], gen, c['db']).items
    for ex in c['extra']:
        (L, rn, d) = ex[:3]
        te = {'L': L, 'layout': 'plain', 'roles': rn, 'depth': d, 'struct': len(ex) > 3 and ex[3], 'part': 0, 'parts': 1}
        A = A + explore.std_pool(te, seed + 3).items
    A = A + [([['plain', '']], build([['plain', '']]))]
    for kind in ('dup1', 'dup2'):
        hh = explore.dup_hist(kind, explore.letters(seed, 3), seed)
        A.append((hh, build(hh)))
    # operands whose seam lies beyond offset 256
    R = explore.roles(seed)
    long_t = 'y' * explore.LONG + 'ab'
    for hh in ([['plain', long_t], ['apply', R['R'], explore.LONG, explore.LONG + 2, True]],
               [['plain', long_t], ['apply', R['R'], 0, explore.LONG + 2, True], ['apply', R['B'], explore.LONG + 1, explore.LONG + 2, True]],
               [['plain', long_t], ['apply', R['B'], explore.LONG + 1, explore.LONG + 2, True], ['apply', R['R'], 0, explore.LONG + 2, True]]):
        A.append((hh, build(hh)))
    return A, B


def expected(ta, ca, tb, cb):
    return ta + tb, list(ca) + list(cb)


def check_result(r, want_t, want_c, what, case, bad, closed=True):
    try:
        t, c = model.alpha_codes(model.content(r))
    except Exception as e:  # noqa
        bad.append(('cat-inconsistent', case, '%s: reading the result raised %s: %s' % (what, type(e).__name__, e)))
        return False
    if t != want_t:
        bad.append(('cat-text', case, '%s has text %r, expected %r' % (what, t, want_t)))
        return False
    if not model.cells_equiv(c, want_c):
        bad.append(('cat-cells', case, '%s: %s' % (what, model.first_diff(c, want_c))))
        return False
    if closed:
        err = model.closed_check(model.content(r)) or model.self_check(r)
        if err:
            bad.append(('cat-not-closed', case, '%s: %s' % (what, err)))
            return False
    return True


def check_pair(ha, hb, a, b, acc, extra=True, holder=None):
    """a, b: pristine values (b may be a str).  Returns list of (clause, case, detail).  If an operand is
    mutated by an operation (C08's finding) it is rebuilt; holder, when given, receives the fresh objects."""
    bad = []
    ta, ca = model.alpha_codes(a)
    if isinstance(b, str) and not isinstance(b, AnsiStr):
        tb, cb = b, [()] * len(b)
    else:
        tb, cb = model.alpha_codes(b)
    wt, wc = expected(ta, ca, tb, cb)
    cha = model.canon_hash(a)
    chb = None if isinstance(b, str) else model.canon_hash(b)

    def pristine():
        nonlocal a, b
        try:
            ok_a = model.canon_hash(a) == cha
        except Exception:  # noqa
            ok_a = False
        if not ok_a:
            acc.counters['operand_mutated'] += 1
            a = build(ha)
            if holder is not None:
                holder['a'] = a
        if chb is not None:
            try:
                ok_b = model.canon_hash(b) == chb
            except Exception:  # noqa
                ok_b = False
            if not ok_b:
                acc.counters['operand_mutated'] += 1
                b = build(hb)
                if holder is not None:
                    holder['b'] = b

    forms = ['add', 'iadd', 'join', 'str_add', 'str_join', 'str_reuse']
    if extra:
        forms += ['str_add_str', 'join3']
    for form in forms:
        case = {'a': ha, 'b': hb, 'form': form}
        acc.transitions += 1
        try:
            if form == 'add':
                r = a + b
            elif form == 'iadd':
                a2 = build(ha)
                r = a2
                r += b
                if r is not a2:
                    bad.append(('iadd-identity', case, '+= did not return the receiver'))
                    continue
            elif form == 'join':
                r = AnsiString.join(a, b)
            elif form == 'str_add':
                r = AnsiStr(a) + b
                if type(r) is not AnsiStr:
                    bad.append(('cat-type', case, 'AnsiStr + x returned %s' % type(r).__name__))
                    continue
            elif form == 'str_join':
                r = AnsiStr.join(a, b)
            elif form == 'str_add_str':
                r = AnsiStr(a) + (AnsiStr(b) if not isinstance(b, str) else b)
            elif form == 'str_reuse':
                # the same two immutable operand objects used a second time: whatever they remember from the first
                # concatenation must not show in the second
                xa = AnsiStr(a)
                xb = AnsiStr(b) if not isinstance(b, str) else b
                xa + xb
                AnsiString.join(a, xb)
                r = xa + xb
            elif form == 'join3':
                c3 = AnsiString('q', AnsiSetting('35'))
                r = AnsiString.join(a, b, c3)
                pristine()
                if check_result(r, wt + 'q', wc + [('35',)], 'join(a,b,c)', case, bad):
                    acc.validated += 1
                    r2 = (a + b) + c3
                    if model.alpha_codes(r2) != model.alpha_codes(r):
                        bad.append(('join-fold', case, 'join(a,b,c) differs from (a+b)+c'))
                pristine()
                continue
        except Exception as e:  # noqa
            bad.append(('cat-raises', case, '%s raised %s: %s' % (form, type(e).__name__, e)))
            pristine()
            continue
        pristine()
        if check_result(r, wt, wc, form, case, bad):
            acc.validated += 1
            if form == 'add':
                acc.outcome(model.canon_hash(r))
    return bad


# plain-str operands that carry SGR sequences: each is parsed on its own (a style left open at its end, a sequence without
# text, a reset at its end, no sequence)
LITS = ['\x1b[31mR', '\x1b[1m', 'x\x1b[m', 'pl', '\x1b[4mU\x1b[24m']


def check_lits(ha, a, acc):
    """join / + with several adjacent plain-str operands: the result is the operands side by side, every operand with
    the styles it has when parsed alone."""
    bad = []
    ta, ca = model.alpha_codes(a)
    parsed = {}
    for l in LITS:
        parsed[l] = model.alpha_codes(AnsiString(l))
    for l1 in LITS:
        for l2 in LITS:
            (t1, c1), (t2, c2) = parsed[l1], parsed[l2]
            for form in ('join_lits', 'str_join_lits', 'lits_join', 'add_lits'):
                case = {'a': ha, 'b': None, 'form': form, 'lits': [l1, l2]}
                acc.transitions += 1
                try:
                    if form == 'join_lits':
                        r, wt, wc = AnsiString.join(a, l1, l2), ta + t1 + t2, list(ca) + list(c1) + list(c2)
                    elif form == 'str_join_lits':
                        r, wt, wc = AnsiStr.join(AnsiStr(a), l1, l2), ta + t1 + t2, list(ca) + list(c1) + list(c2)
                    elif form == 'lits_join':
                        r, wt, wc = AnsiString.join(l1, l2, a), t1 + t2 + ta, list(c1) + list(c2) + list(ca)
                    else:
                        r, wt, wc = (a + l1) + l2, ta + t1 + t2, list(ca) + list(c1) + list(c2)
                except Exception as e:  # noqa
                    bad.append(('cat-raises', case, '%s(%r, %r) raised %s: %s' % (form, l1, l2, type(e).__name__, e)))
                    continue
                if check_result(r, wt, wc, '%s(%r, %r)' % (form, l1, l2), case, bad, closed=False):
                    acc.validated += 1
    return bad


def seam_class(ca, cb):
    """(end cell of a, start cell of b) - what the implementation's merge logic looks at."""
    ea = ca[-1] if ca else None
    sb = cb[0] if cb else None
    return (ea, sb)


def run_task(task, acc):
    tier = env.tier()
    A, B = pools(tier, acc.seed)
    if task['part'] == 'split':
        allv = A + B
        # quantity: every triple of ranges with three settings on top of each other (two of three ending together, the
        # middle one reaching further ...) - the seam of v[:k] + v[k:] then has three settings to merge
        for kind, L in (('tri', 4), ('trix', 3), ('triw', 3)) + ((('trix', 4), ('triw', 4)) if tier != 'quick' else ()):
            allv = allv + [(hh, None) for hh in explore.family_hists(kind, explore.letters(acc.seed, L), acc.seed)]
        for idx, (h, v) in enumerate(allv):
            if idx % 8 != task['k']:
                continue
            acc.current = {'a': h, 'b': None, 'form': 'split', 'k': 0}
            acc.evaluations += 1
            for clause, case, detail in check_split(h, v, acc):
                acc.violation(clause, case, detail, sig=clause)
        return
    if task['part'] == 'vb':
        A2, B2 = vb_pools(tier, acc.seed)
        for ia, (ha, a) in enumerate(A2):
            if ia % 8 != task['k']:
                continue
            acc.state(model.canon_hash(a))
            for (hb, b) in B2:
                acc.evaluations += 1
                acc.current = {'a': ha, 'b': hb}
                for clause, case, detail in check_pair(ha, hb, build(ha), build(hb), acc, extra=False):
                    acc.violation(clause, case, detail, sig=clause + ':' + case['form'] + ':vb')
        return
    strs = [(['lit', ''], ''), (['lit', 'xy'], 'xy')]
    B = [list(x) for x in B]
    CB = [model.alpha_codes(b)[1] for _hb, b in B]
    for ia, (ha, a) in enumerate(A):
        if ia % K != task['part']:
            continue
        acc.state(model.canon_hash(a))
        ca = model.alpha_codes(a)[1]
        explore.shape_counters(acc, ca)
        for ib, (hb, b) in enumerate(B):
            acc.evaluations += 1
            acc.current = {'a': ha, 'b': hb}
            cb = CB[ib]
            sc = seam_class(ca, cb)
            first = hash(sc) not in acc.nontrivial
            acc.nontriv(sc)
            if ca and cb and ca[-1] and cb[0]:
                if ca[-1] == cb[0]:
                    acc.counters['seam_equal'] += 1
                elif set(ca[-1]) & set(cb[0]):
                    acc.counters['seam_overlap'] += 1
                else:
                    acc.counters['seam_different'] += 1
            holder = {}
            for clause, case, detail in check_pair(ha, hb, a, b, acc, extra=True, holder=holder):
                acc.violation(clause, case, detail, sig=clause + ':' + case['form'])
            if 'a' in holder:
                a = holder['a']
            if 'b' in holder:
                B[ib][1] = holder['b']
            acc.sample({'a': ha, 'b': hb, 'form': 'add'})
        for (hb, b) in strs:
            acc.evaluations += 1
            for clause, case, detail in check_pair(ha, hb, a, b, acc, extra=False):
                acc.violation(clause, case, detail, sig=clause + ':' + case['form'] + ':str')
        if ia % 4 == 0:
            for clause, case, detail in check_lits(ha, build(ha), acc):
                acc.violation(clause, case, detail, sig=clause + ':' + case['form'])
        # a value with itself (the same object on both sides)
        acc.evaluations += 1
        for clause, case, detail in check_self(ha, acc):
            acc.violation(clause, case, detail, sig=clause + ':self')


def check_self(ha, acc):
    bad = []
    a = build(ha)
    ta, ca = model.alpha_codes(a)
    wt, wc = ta + ta, list(ca) + list(ca)
    for form in ('self_add', 'self_iadd', 'self_join', 'self_str_add', 'self_str_join'):
        case = {'a': ha, 'b': None, 'form': form}
        acc.transitions += 1
        try:
            a = build(ha)
            if form == 'self_add':
                r = a + a
            elif form == 'self_iadd':
                r = a
                r += a
            elif form == 'self_str_add':
                x = AnsiStr(a)
                x + x
                r = x + x               # second use of the same object
            elif form == 'self_str_join':
                x = AnsiStr(a)
                r = AnsiStr.join(x, x)
            else:
                r = AnsiString.join(a, a)
        except Exception as e:  # noqa
            bad.append(('cat-raises', case, '%s raised %s: %s' % (form, type(e).__name__, e)))
            continue
        if check_result(r, wt, wc, form, case, bad):
            # the result must also behave: removing over any range of it works (a doubled marker shows here)
            rc = model.content(r)
            err = None
            if len(rc) <= 8:
                for (s_, e_) in explore.ranges(len(rc)):
                    w = rc.copy()
                    try:
                        w.remove_formatting(None, s_, e_)
                        err = model.self_check(w)
                    except Exception as ex:  # noqa
                        err = 'remove_formatting(None, %d, %d) raised %s: %s' % (s_, e_, type(ex).__name__, ex)
                    if err:
                        break
            if err:
                bad.append(('cat-inconsistent', case, '%s: result misbehaves later: %s' % (form, err)))
            else:
                acc.validated += 1
    return bad


def check_split(h, v, acc):
    bad = []
    try:
        v = build(h)
        t, c = model.alpha_codes(v)
        disp = [rt.interpret(s) for s in (v.to_str(), v.to_str(optimize=False))]
    except Exception as e:  # noqa
        return [('split-raises', {'a': h, 'b': None, 'form': 'split', 'k': 0}, 'reading the value raised %s: %s' % (type(e).__name__, e))]
    for k in range(0, len(t) + 1):
        case = {'a': h, 'b': None, 'form': 'split', 'k': k}
        acc.transitions += 1
        try:
            v = build(h)
            r = v[:k] + v[k:]
        except Exception as e:  # noqa
            bad.append(('split-raises', case, 'v[:%d]+v[%d:] raised %s: %s' % (k, k, type(e).__name__, e)))
            continue
        if check_result(r, t, c, 'v[:%d]+v[%d:]' % (k, k), case, bad):
            d2 = [rt.interpret(s) for s in (r.to_str(), r.to_str(optimize=False))]
            for d, e in zip(disp, d2):
                if d.chars != e.chars or d.styles != e.styles:
                    bad.append(('split-display', case, 'v[:%d]+v[%d:] renders differently from v' % (k, k)))
                    break
            else:
                acc.validated += 1
    return bad


def replay(case):
    from ..runner import Acc
    acc = Acc(0)
    if case['form'] == 'split':
        return [(cl, d) for cl, c, d in check_split(case['a'], build(case['a']), acc) if c.get('k') == case['k']]
    if case['form'].startswith('self_'):
        return [(cl, d) for cl, c, d in check_self(case['a'], acc) if c['form'] == case['form']]
    if 'lits' in case:
        return [(cl, d) for cl, c, d in check_lits(case['a'], build(case['a']), acc)
                if c['form'] == case['form'] and c['lits'] == case['lits']]
    hb = case['b']
    b = hb[1] if hb[0] == 'lit' else build(hb)
    return [(cl, d) for cl, c, d in check_pair(case['a'], hb, build(case['a']), b, acc) if c['form'] == case['form']]


def describe(tier, seed):
    return {
        'rule': 'all ordered pairs (a, b): a from BFS pools (apply/remove/structural histories), b from a BFS pool on a '
                'different text (plain, rainbow, empty seeds); forms a+b, a+=b, join(a,b), join(a,b,c), AnsiStr(a)+b, '
                'AnsiStr.join, AnsiStr+AnsiStr; str operands; a with itself (same object); all split points of every pool '
                'value. Non-trivial/distinct = distinct (last cell of a, first cell of b) seam classes.',
        'bounds': cfg(tier),
    }


def vacuity(tot, tier):
    c = tot['counters']
    for k in ('seam_equal', 'seam_overlap', 'seam_different'):
        if c.get(k, 0) == 0:
            return 'no pair in seam class ' + k
    return None
