"""C08 - value semantics: arguments and receivers not mutated, results not aliased.

Engine A with a snapshot monitor: every operation of the table x every operand from BFS pools; every operand
is snapshotted before and after; then every mutator is applied to one side and the other side re-observed.
"""
from .. import env
from ..env import AnsiString, AnsiStr, AnsiSetting
from .. import model, explore
from ..hist import build, mk_settings

ID = 'C08'
K = 32


def cfg(tier):
    if tier == 'quick':
        return {'plan_a': [(2, ('plain', 'rainbow'), 'RW', 2, False), (2, ('plain',), 'R', 1, True), (3, ('plain',), 'R', 2, False)],
                'plan_b': [(2, ('plain',), 'RW', 1, False)]}
    return {'plan_a': [(2, ('plain', 'rainbow'), 'RBW', 2, False), (2, ('plain',), 'RW', 2, True), (3, ('plain', 'rainbow'), 'RW', 2, False)],
            'plan_b': [(2, ('plain',), 'RW', 2, False)]}


def pool(plan, seed, off=0):
    items = []
    for (L, layouts, rn, depth, struct) in plan:
        for lay in layouts:
            t = {'L': L, 'layout': lay, 'roles': rn, 'depth': depth, 'struct': struct, 'part': 0, 'parts': 1}
            if off:
                text = explore.letters(seed + off, L)
                gen = explore.std_gen(t, seed)
                items += explore.bfs([[[lay, text]]], gen, depth).items
            else:
                items += explore.std_pool(t, seed).items
    return items


def snap(v, deep=False):
    """What a caller can observe: type, text, identity-renamed ordered cells, renderings, AnsiStr payload, plus
    == against an independent deep copy taken now (compared again by snap_eq)."""
    if deep:
        fz = model.freeze_value(v)
        return Snap(fz[0], fz[1], v)
    return Snap(model.observe(v), None, v)


class Snap:
    """Compares equal to a later snapshot of the same object iff the observation is equal and the object still
    == the deep copy taken at the time of the first snapshot."""

    def __init__(self, obs, cp, obj):
        self.obs, self.cp, self.obj = obs, cp, obj

    def __eq__(self, other):
        if not isinstance(other, Snap) or self.obs != other.obs:
            return False
        for a, b in ((self, other), (other, self)):
            if a.cp is not None:
                try:
                    if not (b.obj == a.cp):
                        return False
                except Exception:  # noqa
                    return False
        return True

    def __ne__(self, other):
        return not self.__eq__(other)

    def __getitem__(self, i):       # message formatting: s[1:3] -> text and cells
        return self.obs[i]


def explicit_values(seed):
    """Values that are always operands, whatever the health probe of the pool builder says (the probe itself
    uses + and copy, so a defect there must not be able to empty the operand set)."""
    R = explore.roles(seed)
    hs = [[['plain', 'ab']], [['rainbow', 'abc']], [['ctor', 'ab', R['R']]], [['plain', '']], [['ctor', '', R['R']]],
          [['plain', 'abc'], ['apply', R['R'], 0, 2, True], ['apply', R['W'], 1, 3, True]],
          [['plain', 'abcd'], ['apply', R['R'], 1, 3, True]],
          [['plain', 'abcd'], ['apply', R['R'], 0, 4, True], ['apply', R['R'], 1, 2, True]],
          [['rainbow', 'a-b-c'], ['apply', R['W'], 1, 4, True]],
          [['plain', 'abcdef'], ['apply', R['R'], 1, 5, True], ['apply', R['B'], 2, 4, True]],
          [['plain', 'abc'], ['apply', R['o'], 0, 2, True], ['apply', R['q'], 1, 3, True]],     # non-canonical / multi-group texts
          # valid but unparsable verbatim settings (unknown code, value > 255, colon form): their lazily computed flags
          # are queried again and again by every rendering
          [['plain', 'abc'], ['apply', R['u'], 0, 2, True], ['apply', '[1;300', 1, 3, True], ['apply', '[4:3', 0, 1, True]],
          # a base text that itself contains a complete SGR sequence (assign_str takes its text verbatim): a copy made by
          # re-parsing the text is not a copy
          [['plain', 'abcd'], ['apply', R['R'], 0, 3, True], ['assign', 'a\x1b[1mb']],
          # an invalid setting (simplify drops it - from this value only)
          [['plain', 'abc'], ['apply', R['x'], 0, 2, True], ['apply', R['R'], 1, 3, True]],
          # three settings on one character (outer two ending together) and the conflict pattern X, Y, X
          [['plain', 'abcd'], ['apply', R['R'], 0, 2, True], ['apply', R['W'], 0, 3, True], ['apply', R['U'], 0, 2, True]],
          [['plain', 'abcd'], ['apply', R['R'], 0, 4, True], ['apply', R['B'], 1, 4, True], ['apply', R['R'], 2, 3, True]]]
    return [(h, build(h)) for h in hs]


def mutators(seed):
    G = explore.roles(seed)['G']
    return [
        ('apply', lambda x: x.apply_formatting(AnsiSetting(G))),
        ('apply-bottom', lambda x: x.apply_formatting(AnsiSetting(G), 1, 2, topmost=False)),
        ('remove', lambda x: x.remove_formatting()),
        ('remove-part', lambda x: x.remove_formatting(None, 0, 1)),
        ('assign-longer', lambda x: x.assign_str(x.base_str + 'QQ')),
        ('assign-shorter', lambda x: x.assign_str(x.base_str[:-1])),
        ('iadd', lambda x: x.__iadd__('z')),
        ('simplify', lambda x: x.simplify()),
        ('clip', lambda x: x.clip(1, inplace=True)),
        ('center', lambda x: x.center(len(x) + 3, inplace=True)),
    ]


def flat(r):
    if isinstance(r, (AnsiString, AnsiStr)):
        return [r]
    if isinstance(r, (list, tuple)):
        out = []
        for x in r:
            out.extend(flat(x))
        return out
    return []


def unary_ops(v, seed):
    """(name, args, kwargs, has_inplace)"""
    t = v.base_str
    L = len(t)
    ops = []
    for (i, j) in ((None, None), (1, None), (None, -1), (1, -1), (0, L), (0, 1)):
        ops.append(('clip', [i, j], {}, True))
        ops.append(('__getitem__', [slice(i, j)], {}, False))
    if L:
        ops.append(('__getitem__', [0], {}, False))
        ops.append(('__getitem__', [-1], {}, False))
    for name in ('strip', 'lstrip', 'rstrip'):
        ops.append((name, [t[:1] or 'a'], {}, True))
        ops.append((name, [t[-1:] or 'a'], {}, True))
        ops.append((name, [], {}, True))
        ops.append((name, [''], {}, True))
    ops.append(('removeprefix', [''], {}, True))
    ops.append(('replace', ['', 'Q'], {}, True))
    ops.append(('replace', [t[:1] or 'a', t[:1] or 'a'], {}, True))
    ops.append(('removeprefix', [t[:1]], {}, True))
    ops.append(('removeprefix', ['zz'], {}, True))
    ops.append(('removesuffix', [t[-1:]], {}, True))
    ops.append(('removesuffix', [''], {}, True))
    for name in ('capitalize', 'casefold', 'lower', 'upper', 'swapcase', 'title'):
        ops.append((name, [], {}, True))
    for name in ('center', 'ljust', 'rjust'):
        for w in (L, L + 1, L + 3):
            for ext in (True, False):
                ops.append((name, [w, '*'], {'extend_formatting': ext}, True))
    ops.append(('zfill', [L + 2], {}, True))
    for sep in (t[:1], t[1:2], 'zz'):
        if sep:
            ops.append(('split', [sep], {}, False))
            ops.append(('rsplit', [sep, 1], {}, False))
            ops.append(('partition', [sep], {}, False))
            ops.append(('rpartition', [sep], {}, False))
            ops.append(('replace', [sep, 'Q'], {}, True))
            ops.append(('replace', [sep, ''], {}, True))
    ops.append(('split', [], {}, False))
    ops.append(('splitlines', [], {}, False))
    ops.append(('expandtabs', [2], {}, True))
    ops.append(('copy', [], {}, False))
    ops.append(('__iter__', [], {}, False))
    ops.append(('CTOR_AnsiString', [], {}, False))
    ops.append(('CTOR_AnsiStr', [], {}, False))
    ops.append(('CTOR_via', [], {}, False))
    ops.append(('CTOR_settings', [], {}, False))
    ops.append(('__add__', ['xy'], {}, False))
    ops.append(('to_str', ['>8:bold'], {}, False))
    ops.append(('__format__', ['*^9'], {}, False))
    ops.append(('ansi_settings_at', [0], {}, False))
    ops.append(('find_settings', [AnsiSetting(explore.roles(seed)['R'])], {}, False))
    return ops


def do_unary(v, name, args, kwargs, seed):
    if name == '__iter__':
        return list(v)
    if name == 'CTOR_AnsiString':
        return AnsiString(v)
    if name == 'CTOR_AnsiStr':
        return AnsiStr(v)
    if name == 'CTOR_via':
        return AnsiString(AnsiStr(v))
    if name == 'CTOR_settings':
        return AnsiString(v, AnsiSetting(explore.roles(seed)['B']))
    return getattr(v, name)(*args, **kwargs)


def check_unary(h, name, args, kwargs, has_inplace, seed, twin=False):
    bad = []
    muts = mutators(seed)
    what = '%s%s%r%s' % ('AnsiStr.' if twin else '', name, tuple(args), kwargs or '')
    v = build(h)
    if twin:
        v = AnsiStr(v)
        if kwargs or name in ('copy',) or name.startswith('CTOR'):
            return []
    s0 = snap(v, deep=True)
    try:
        r = do_unary(v, name, args, kwargs, seed)
    except Exception as e:  # noqa
        if snap(v) != s0:
            bad.append(('receiver-mutated', '%s raised %s and changed the receiver' % (what, type(e).__name__)))
        return bad
    if snap(v) != s0:
        bad.append(('receiver-mutated', '%s changed its receiver: %r -> %r' % (what, s0[1:3], snap(v)[1:3])))
        return bad
    R = flat(r)
    if name == 'ansi_settings_at' and isinstance(r, list):
        r.clear()
        if snap(v) != s0:
            bad.append(('result-aliased', 'clearing the list returned by %s changed the receiver' % what))
    if name in ('copy', 'CTOR_AnsiString') and not twin:
        if not (r == v) or model.renderings(r) != model.renderings(v) or model.alpha_codes(r) != model.alpha_codes(v):
            bad.append(('copy-differs', '%s is not equal to / does not render like its source' % what))
    if name == 'CTOR_via':
        if model.alpha_codes(r) != model.alpha_codes(v) or model.renderings(r) != model.renderings(v):
            bad.append(('copy-differs', 'AnsiString(AnsiStr(v)) differs from v'))
    # in-place variant: returns the receiver, equals the non-in-place result
    if has_inplace and not twin:
        w = build(h)
        try:
            r2 = getattr(w, name)(*args, inplace=True, **kwargs)
            if r2 is not w:
                bad.append(('inplace-identity', '%s with inplace=True did not return the receiver' % what))
            elif isinstance(r, AnsiString) and (not (w == r) or model.closed_check(w) != model.closed_check(r)):
                # (the statement says "equal": ==, and nothing a later operation could tell apart - a style left open at
                # the end shows when something is appended)
                bad.append(('inplace-differs', '%s: the in-place result is not == the non-in-place result, or behaves differently '
                            'when text is appended (%r / %r)' % (what, model.closed_check(w), model.closed_check(r))))
            elif model.alpha_codes(w) != model.alpha_codes(r) or model.renderings(w) != model.renderings(r):
                bad.append(('inplace-differs', '%s: in-place result %r differs from the non-in-place result %r'
                            % (what, model.alpha_codes(w), model.alpha_codes(r))))
        except Exception as e:  # noqa
            bad.append(('inplace-raises', '%s with inplace=True raised %s: %s' % (what, type(e).__name__, e)))
    if not R or bad:
        return bad
    # independence
    for mname, mut in muts:
        v = build(h)
        src = AnsiStr(v) if twin else v
        try:
            R = flat(do_unary(src, name, args, kwargs, seed))
        except Exception:  # noqa
            break
        sR = [snap(x) for x in R]
        R2 = sR2 = None
        try:
            if mname not in ('apply', 'assign-longer', 'iadd'):
                raise LookupError
            R2 = flat(do_unary(src, name, args, kwargs, seed))
            sR2 = [snap(y) for y in R2]
            if sR2 != sR:
                bad.append(('result-aliased', '%s called twice on one unchanged receiver gives different results: %r / %r'
                            % (what, [q[1:3] for q in sR], [q[1:3] for q in sR2])))
                break
        except Exception:  # noqa
            R2 = None
        if not twin:
            try:
                mut(v)
            except Exception:  # noqa
                pass
            now = [snap(x) for x in R]
            if now != sR:
                k = next(i for i in range(len(R)) if now[i] != sR[i])
                bad.append(('result-aliased', 'after %s, mutating the source (%s) changed result %d: %r -> %r'
                            % (what, mname, k, sR[k][1:3], now[k][1:3])))
                break
        sv = snap(src)
        for k, x in enumerate(R):
            if isinstance(x, AnsiStr):
                continue
            if x is src:
                continue
            try:
                mut(x)
            except Exception:  # noqa
                pass
            if snap(src) != sv:
                bad.append(('source-aliased', 'after %s, mutating result %d (%s) changed the source: %r -> %r'
                            % (what, k, mname, sv[1:3], snap(src)[1:3])))
                break
            others = [snap(y) for i2, y in enumerate(R) if i2 != k]
            want = [s for i2, s in enumerate(sR) if i2 != k]
            if others != want:
                bad.append(('result-aliased', 'after %s, mutating result %d (%s) changed another result' % (what, k, mname)))
                break
            sR[k] = snap(x)
            # ... nor what the same call returns the next time (two values derived from one source)
            if R2 is not None and [snap(y) for y in R2] != sR2:
                bad.append(('result-aliased', 'after %s, mutating result %d (%s) of one call changed the result of a second, '
                            'identical call' % (what, k, mname)))
                break
        if bad:
            break
    return bad


def check_binary(ha, hb, form, seed):
    """form in add/iadd/join/join3/str_add/replace ; hb None = the same object on both sides."""
    bad = []
    muts = mutators(seed)

    def mk():
        a = build(ha)
        if hb is None:
            return a, a
        if hb[0] == 'lit':
            return a, hb[1]
        if hb[0] == 'TWIN':
            return a, AnsiStr(build(hb[1]))
        return a, build(hb)

    def run(a, b):
        if form == 'add':
            return a + b
        if form == 'iadd':
            a += b
            return a
        if form == 'join':
            return AnsiString.join(a, b)
        if form == 'join3':
            return AnsiString.join(a, b, a)
        if form == 'str_add':
            return AnsiStr(a) + b
        if form == 'replace':
            return AnsiString('-' + a.base_str[:1] + '-' + a.base_str[:1] + '-').replace('-', b)
        if form == 'replace_in':
            w = AnsiString('-x-x-', AnsiSetting('35'))
            return w.replace('-', b, inplace=True)
        raise env.HarnessError(form)
    what = form
    a, b = mk()
    sa, sb = snap(a, deep=True), (snap(b, deep=True) if not isinstance(b, str) or isinstance(b, AnsiStr) else b)
    try:
        r = run(a, b)
    except Exception as e:  # noqa
        r = None
        bad.append(('binary-raises', '%s raised %s: %s' % (what, type(e).__name__, e)))
    if form != 'iadd' and snap(a) != sa:
        bad.append(('left-operand-mutated', '%s changed the left operand: %r -> %r' % (what, sa[1:3], snap(a)[1:3])))
    if hb is not None and not (isinstance(b, str) and not isinstance(b, AnsiStr)) and snap(b) != sb:
        bad.append(('right-operand-mutated', '%s changed the right operand: %r -> %r' % (what, sb[1:3], snap(b)[1:3])))
    if form == 'iadd' and r is not None and r is not a:
        bad.append(('inplace-identity', '+= did not return the receiver'))
    if bad or r is None:
        return bad
    for mname, mut in muts:
        # mutate the result -> operands unchanged
        a, b = mk()
        r = run(a, b)
        objs = [('left', a)] + ([('right', b)] if (hb is not None and isinstance(b, AnsiString)) else [])
        if form == 'iadd':
            objs = objs[1:]
        before = [snap(o) for _n, o in objs]
        if isinstance(r, AnsiString):
            try:
                mut(r)
            except Exception:  # noqa
                pass
            now = [snap(o) for _n, o in objs]
            if now != before:
                k = next(i for i in range(len(objs)) if now[i] != before[i])
                bad.append(('operand-aliased', 'after %s, mutating the result (%s) changed the %s operand' % (what, mname, objs[k][0])))
                break
        # mutate each operand -> result and the other operand unchanged
        for which in range(len(objs)):
            a, b = mk()
            r = run(a, b)
            objs = [('left', a)] + ([('right', b)] if (hb is not None and isinstance(b, AnsiString)) else [])
            if form == 'iadd':
                objs = objs[1:]
            if which >= len(objs):
                break
            sr = snap(r)
            others = [snap(o) for i2, (_n, o) in enumerate(objs) if i2 != which]
            try:
                mut(objs[which][1])
            except Exception:  # noqa
                pass
            if snap(r) != sr:
                bad.append(('result-aliased', 'after %s, mutating the %s operand (%s) changed the result: %r -> %r'
                            % (what, objs[which][0], mname, sr[1:3], snap(r)[1:3])))
                break
            if [snap(o) for i2, (_n, o) in enumerate(objs) if i2 != which] != others:
                bad.append(('operand-aliased', 'after %s, mutating the %s operand (%s) changed the other operand' % (what, objs[which][0], mname)))
                break
        if bad:
            break
    return bad


def check_settings_list(h, form, seed):
    R = explore.roles(seed)
    inner = [AnsiSetting(R['W']), R['U']]
    L = [AnsiSetting(R['R']), inner, (AnsiSetting(R['B']),), 'bold', 3]
    before = (list(map(id, L)), [str(x) for x in L], list(map(id, inner)), [str(x) for x in inner], len(L), len(inner))
    v = build(h)
    try:
        if form == 'ctor':
            r = AnsiString(v, L)
        elif form == 'ctor_str':
            r = AnsiStr(v, L)
        elif form == 'apply':
            v.apply_formatting(L)
        elif form == 'apply_bottom':
            v.apply_formatting(L, 0, None, False)
        elif form == 'remove':
            v.remove_formatting(L)
        elif form == 'find':
            v.find_settings(L)
        elif form == 'fmtmatch':
            v.format_matching('a', L, inner)
        elif form == 'unfmtmatch':
            v.unformat_matching('a', L)
    except Exception as e:  # noqa
        return [('settings-list', '%s with a settings list raised %s: %s' % (form, type(e).__name__, e))]
    after = (list(map(id, L)), [str(x) for x in L], list(map(id, inner)), [str(x) for x in inner], len(L), len(inner))
    if after != before:
        return [('settings-list-mutated', '%s modified the settings list given to it: %r -> %r' % (form, before[1], after[1]))]
    # the settings the object now holds are not the caller's objects (mutating caller's list later is harmless anyway,
    # AnsiSetting is immutable); applying the same list to two objects keeps them independent
    if form == 'apply':
        w = build(h)
        w.apply_formatting(L)
        s = snap(w)
        v.remove_formatting()
        if snap(w) != s:
            return [('result-aliased', 'two objects formatted from one settings list are not independent')]
    return []


def tasks(tier, seed):
    return [{'kind': 'unary', 'part': k} for k in range(K)] + [{'kind': 'binary', 'part': k} for k in range(K)] + [{'kind': 'lists'}]


def run_task(task, acc):
    tier = env.tier()
    c = cfg(tier)
    seed = acc.seed
    A = explicit_values(seed) + pool(c['plan_a'], seed)
    if task['kind'] == 'unary':
        for ia, (h, v) in enumerate(A):
            if ia % K != task['part']:
                continue
            acc.state(model.canon_hash(v))
            acc.evaluations += 1
            explore.shape_counters(acc, model.alpha_codes(v)[1])
            for (name, args, kwargs, inpl) in unary_ops(v, seed):
                for twin in (False, True):
                    jargs = [['slice', a.start, a.stop] if isinstance(a, slice) else (['SET', str(a)] if isinstance(a, AnsiSetting) else a) for a in args]
                    case = {'kind': 'unary', 'hist': h, 'op': [name, jargs, kwargs, inpl], 'twin': twin}
                    acc.current = case
                    acc.transitions += 1
                    bad = check_unary(h, name, args, kwargs, inpl, seed, twin)
                    if not bad:
                        acc.validated += 1
                    for clause, detail in bad:
                        acc.violation(clause, case, detail, sig=clause + ':' + name)
                    acc.nontriv(hash((ia, name, repr(jargs), twin)))
            acc.sample({'kind': 'unary', 'hist': h, 'op': ['clip', [1, None], {}, True], 'twin': False})
        return
    if task['kind'] == 'lists':
        for ia, (h, v) in enumerate(A[:40]):
            for form in ('ctor', 'ctor_str', 'apply', 'apply_bottom', 'remove', 'find', 'fmtmatch', 'unfmtmatch'):
                case = {'kind': 'lists', 'hist': h, 'form': form}
                acc.transitions += 1
                bad = check_settings_list(h, form, seed)
                if not bad:
                    acc.validated += 1
                for clause, detail in bad:
                    acc.violation(clause, case, detail, sig=clause + ':' + form)
        return
    B = pool(c['plan_b'], seed, off=7)
    extra = [(['lit', 'xy'], None), (['lit', ''], None)]
    for ia, (ha, a) in enumerate(A):
        if ia % K != task['part']:
            continue
        acc.state(model.canon_hash(a))
        acc.evaluations += 1
        partners = [hb for hb, _b in B] + [['TWIN', hb] for hb, _b in B[:6]] + [e[0] for e in extra] + [None]
        for hb in partners:
            forms = ['add', 'iadd', 'join', 'join3', 'str_add']
            if hb is not None and hb[0] not in ('lit',):
                forms += ['replace', 'replace_in']
            for form in forms:
                case = {'kind': 'binary', 'a': ha, 'b': hb, 'form': form}
                acc.current = case
                acc.transitions += 1
                bad = check_binary(ha, hb, form, seed)
                if not bad:
                    acc.validated += 1
                for clause, detail in bad:
                    acc.violation(clause, case, detail, sig=clause + ':' + form + (':self' if hb is None else ''))
                acc.nontriv(hash((ia, repr(hb), form)))
            acc.outcome((repr(hb)[:40],))


def replay(case):
    if case['kind'] == 'unary':
        name, jargs, kwargs, inpl = case['op']
        args = [slice(a[1], a[2]) if isinstance(a, list) and a and a[0] == 'slice' else
                (AnsiSetting(a[1]) if isinstance(a, list) and a and a[0] == 'SET' else a) for a in jargs]
        return check_unary(case['hist'], name, args, kwargs, inpl, 0, case['twin'])
    if case['kind'] == 'lists':
        return check_settings_list(case['hist'], case['form'], 0)
    return check_binary(case['a'], case['b'], case['form'], 0)


def describe(tier, seed):
    return {
        'rule': 'operands: complete BFS pools (bounds). Unary: ~90 operation instances per value (slices, clip, strip family, '
                'remove prefix/suffix, case, pads, split family, replace, copy/conversions, iteration, format) on AnsiString and AnsiStr; '
                'receiver snapshot unchanged, in-place variant returns self and equals the non-in-place result, then each of %d '
                'mutators applied to the source / to each result with the other side re-observed. Binary: every pool value x every '
                'partner (pool b, AnsiStr twins, str, the value itself) x + / += / join / join(a,b,a) / AnsiStr+ / replace with the '
                'operand as replacement reused across matches, operands snapshotted, then the mutator battery on result and '
                'operands. Settings lists (nested) inspected after 8 entry points. snapshot = type, text, ordered cells, canonical '
                'object graph, all 8 renderings.' % len(mutators(seed)),
        'bounds': {k: [list(map(str, p)) for p in v] for k, v in cfg(tier).items()},
    }


def vacuity(tot, tier):
    if tot['transitions'] < 20000:
        return 'too few operations'
    return None
