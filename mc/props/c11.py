"""C11 - substring and editing methods keep the style of every surviving character.

Engine A: values = every text up to length N over {a,b,-} (and {space,LF,tab,a}) x position-identifying
layouts (rainbow; rainbow under every one-span; abutting equal spans; one span); probes = split/rsplit/
splitlines/partition/rpartition/strip family/removeprefix/removesuffix/case methods/assign_str/replace/
expandtabs with their full small argument domains.  Oracle: piece offsets from a reference scan validated
against Python's own str result; each piece must report cells[o:o+len].
"""
import itertools
from .. import env
from ..env import AnsiString, AnsiStr, AnsiSetting
from .. import model, explore
from ..hist import build, rainbow_code

ID = 'C11'
WS = ' \t\n\r\x0b\x0c\x1c\x1d\x1e\x1f\x85\xa0'
LINE_ENDS = '\n\r\x0b\x0c\x1c\x1d\x1e\x85  '
CASE = ['capitalize', 'casefold', 'lower', 'upper', 'swapcase', 'title']


def bounds(tier):
    return {'len': 4 if tier == 'quick' else 5, 'ws_len': 3 if tier == 'quick' else 4, 'pat_len': 2}


def strings(alpha, lo, hi):
    for k in range(lo, hi + 1):
        for t in itertools.product(alpha, repeat=k):
            yield ''.join(t)


def layouts(text, seed):
    """Histories of position-identifying values for one text."""
    R = explore.roles(seed)
    L = len(text)
    hs = [[['rainbow', text]]]
    for (s, e) in explore.ranges(L):
        hs.append([['rainbow', text], ['apply', R['W'], s, e, True]])
    for k in range(1, L):
        hs.append([['plain', text], ['apply', R['R'], 0, k, True], ['apply', R['R'], k, L, True]])
    for k in range(1, L):
        hs.append([['plain', text], ['apply', R['W'], 0, k, True], ['apply', R['W'], 0, L, True]])
        hs.append([['rainbow', text], ['apply', R['W'], 0, L, True], ['apply', R['W'], k, L, True]])
    if L:
        hs.append([['plain', text], ['apply', R['B'], 0, max(1, L - 1), True]])
        hs.append([['plain', text], ['apply', R['B'], min(1, L - 1), L, True]])
        # verbatim multi-group setting / non-canonical spelling: a copy made by re-parsing the text would split or re-spell it
        hs.append([['plain', text], ['apply', R['q'], 0, max(1, L - 1), True]])
        hs.append([['rainbow', text], ['apply', R['o'], min(1, L - 1), L, True]])
    if L >= 3:
        # a stop-and-restart point inside the text (what remove_formatting of the lower of two settings leaves behind): a
        # match may contain it
        for p_ in (1, 2):
            hs.append([['plain', text], ['apply', R['R'], 0, L, True], ['apply', R['B'], 0, L, True], ['remove', R['R'], 0, p_]])
    if L >= 4:
        # three settings on top of each other from the start, the outer two ending together and the middle one elsewhere
        # (before the end of the text): what follows a match then has three settings to carry across the seam
        for (a, b) in ((L - 2, L - 1), (L - 1, L - 2)):
            hs.append([['plain', text], ['apply', R['R'], 0, a, True], ['apply', R['W'], 0, b, True], ['apply', R['U'], 0, a, True]])
    return hs


def tasks(tier, seed):
    b = bounds(tier)
    out = []
    A = ['a', 'b', '-']
    for t in strings(A, 0, b['len']):
        if len(t) >= b['len'] - 1:
            out.append({'fam': 'main', 'text': t})
    out.append({'fam': 'main_short'})
    W = [' ', '\n', '\t', 'a', '\x85']
    for f in W:
        for g in W:
            out.append({'fam': 'ws', 'prefix': f + g})
    out.append({'fam': 'ws_short'})
    out.append({'fam': 'long'})
    return out


# ------------------------------------------------------------------------------------------------------
# reference scans


def locate_sep(text, pieces, sep):
    offs = []
    pos = 0
    for p in pieces:
        offs.append(pos)
        pos += len(p) + len(sep)
    if pos - len(sep) != len(text) or any(text[o:o + len(p)] != p for o, p in zip(offs, pieces)):
        raise env.HarnessError('locate_sep: reference scan disagrees with str for %r %r %r' % (text, pieces, sep))
    return offs


def locate_gap(text, pieces, gapset, tail_any=False):
    """Pieces occur in order; everything between them consists of characters of gapset."""
    offs = []
    pos = 0
    for p in pieces:
        o = pos
        if p:
            while True:
                if o > len(text):
                    raise env.HarnessError('locate_gap: cannot place %r in %r' % (p, text))
                if text[o:o + len(p)] == p and all(ch in gapset for ch in text[pos:o]):
                    break
                o += 1
        offs.append(o)
        pos = o + len(p)
    return offs


def rsplit_sep(text, sep, maxsplit):
    """Right-to-left reference scan -> offsets."""
    end = len(text)
    out = []
    n = 0
    while maxsplit < 0 or n < maxsplit:
        i = text.rfind(sep, 0, end)
        if i < 0:
            break
        out.append((i + len(sep), end))
        end = i
        n += 1
    out.append((0, end))
    out.reverse()
    return out


def split_sep(text, sep, maxsplit):
    pos = 0
    out = []
    n = 0
    while maxsplit < 0 or n < maxsplit:
        i = text.find(sep, pos)
        if i < 0:
            break
        out.append((pos, i))
        pos = i + len(sep)
        n += 1
    out.append((pos, len(text)))
    return out


# ------------------------------------------------------------------------------------------------------


def expected(text, cells, meth, args):
    """Returns ('pieces', [(text, cells)...]) / ('value', (text, cells)) / None when not claimed."""
    L = len(text)
    if meth in ('split', 'rsplit'):
        sep = args[0] if args else None
        maxsplit = args[1] if len(args) > 1 else -1
        pieces = getattr(text, meth)(sep, maxsplit)
        if sep is None:
            offs = locate_gap(text, pieces, WS)
            spans = [(o, o + len(p)) for o, p in zip(offs, pieces)]
        else:
            spans = split_sep(text, sep, maxsplit) if meth == 'split' else rsplit_sep(text, sep, maxsplit)
            if [text[a:b] for a, b in spans] != pieces:
                raise env.HarnessError('reference %s scan disagrees with str: %r %r -> %r vs %r' % (meth, text, args, spans, pieces))
        return 'pieces', [(text[a:b], cells[a:b]) for a, b in spans]
    if meth == 'splitlines':
        keep = args[0] if args else False
        pieces = text.splitlines(keep)
        offs = locate_gap(text, pieces, LINE_ENDS)
        return 'pieces', [(p, cells[o:o + len(p)]) for o, p in zip(offs, pieces)]
    if meth in ('partition', 'rpartition'):
        sep = args[0]
        i = text.find(sep) if meth == 'partition' else text.rfind(sep)
        if i < 0:
            return 'pieces', [(text, cells), ('', []), ('', [])]
        j = i + len(sep)
        return 'pieces', [(text[:i], cells[:i]), (text[i:j], cells[i:j]), (text[j:], cells[j:])]
    if meth in ('strip', 'lstrip', 'rstrip'):
        chars = args[0] if args and args[0] is not None else ' \t\n\r\x0b\x0c'
        a, b = 0, L
        if meth in ('strip', 'lstrip'):
            while a < b and text[a] in chars:
                a += 1
        if meth in ('strip', 'rstrip'):
            while b > a and text[b - 1] in chars:
                b -= 1
        return 'value', (text[a:b], cells[a:b])
    if meth == 'removeprefix':
        p = args[0]
        a = len(p) if text.startswith(p) else 0
        return 'value', (text[a:], cells[a:])
    if meth == 'removesuffix':
        p = args[0]
        b = L - len(p) if (p and text.endswith(p)) else L
        return 'value', (text[:b], cells[:b])
    if meth in CASE:
        t2 = getattr(text, meth)()
        if len(t2) != L:
            return None
        return 'value', (t2, cells)
    if meth == 'assign':
        new = args[0]
        n = len(new)
        if n <= L:
            c2 = cells[:n]
        else:
            c2 = list(cells) + [cells[-1] if cells else ()] * (n - L)
        return 'value', (new, c2)
    if meth in ('replace', 'expandtabs'):
        if meth == 'expandtabs':
            old, new, count = '\t', ' ' * args[0], -1
            newc = None
        else:
            old, new, count = args[0], args[1], (args[2] if len(args) > 2 else -1)
            newc = None
            if isinstance(new, tuple):       # ('styled', text, cells)
                newc = list(new[2])
                new = new[1]
        if not old:
            return None
        out_t, out_c = [], []
        pos = 0
        n = 0
        while count < 0 or n < count:
            i = text.find(old, pos)
            if i < 0:
                break
            out_t.append(text[pos:i])
            out_c.extend(cells[pos:i])
            out_t.append(new)
            out_c.extend(newc if newc is not None else [cells[i]] * len(new))
            pos = i + len(old)
            n += 1
        out_t.append(text[pos:])
        out_c.extend(cells[pos:])
        t2 = ''.join(out_t)
        want_t = text.replace(old, new, count)
        if t2 != want_t:
            raise env.HarnessError('reference replace scan disagrees with str: %r %r -> %r vs %r' % (text, args, t2, want_t))
        return 'value', (t2, out_c)
    raise env.HarnessError('no model for ' + meth)


def styled_new(kind, seed):
    """Replacement operands with their own settings: returns (object factory, model triple)."""
    R = explore.roles(seed)
    if kind == 'one':
        return (lambda: AnsiString('z', AnsiSetting(R['G']))), ('styled', 'z', [(R['G'],)])
    if kind == 'two':
        def mk():
            v = AnsiString('zy', AnsiSetting(R['G']))
            v.apply_formatting(AnsiSetting(R['U']), 1, 2)
            return v
        return mk, ('styled', 'zy', [(R['G'],), (R['G'], R['U'])])
    if kind == 'restart':
        # the replacement starts with the role the layouts use (so the seam merge fires) and that setting is
        # stopped and restarted inside it (apply topmost=False)
        def mk2():
            v = AnsiString('zyx', AnsiSetting(R['R']))
            v.apply_formatting(AnsiSetting(R['U']), 1, 2, topmost=False)
            return v
        return mk2, ('styled', 'zyx', [(R['R'],), (R['U'], R['R']), (R['R'],)])
    if kind == 'str':
        return (lambda: AnsiStr('z', AnsiSetting(R['G']))), ('styled', 'z', [(R['G'],)])
    raise env.HarnessError(kind)


def call(v, meth, args, seed):
    if meth == 'assign':
        v.assign_str(args[0])
        return v
    if meth == 'replace':
        a = list(args)
        if isinstance(args[1], list):
            # 'self': the receiver itself is the replacement value
            a[1] = v if args[1][1] == 'self' else styled_new(args[1][1], seed)[0]()
        if isinstance(v, AnsiString) and len(a) > 2 and a[2] in (-2, 1):
            # counts -2 and 1 take the in-place form (AnsiString only), which must return the receiver
            r = v.replace(*a, inplace=True)
            if r is not v:
                raise RuntimeError('replace(inplace=True) did not return the receiver')      # reported as edit-raises
            return r
        return v.replace(*a)
    return getattr(v, meth)(*args)


def check_probe(h, text, cells, meth, args, seed, twin=False):
    """Returns list of (clause, detail)."""
    margs = list(args)
    if meth == 'replace' and isinstance(args[1], list):
        margs[1] = ('styled', text, list(cells)) if args[1][1] == 'self' else styled_new(args[1][1], seed)[1]
    exp = expected(text, cells, meth, margs)
    if exp is None:
        return None
    v = build(h)
    if twin == 'pre':
        # the receiver has been queried before the call (whatever those queries leave behind in the object must not show)
        twin = False
        for q in (lambda: v.settings_at(0), lambda: v.ansi_settings_at(len(text) - 1), lambda: str(v),
                  lambda: v.find_settings(v.ansi_settings_at(0) or 'bold'), lambda: v.is_optimizable(), lambda: format(v, '')):
            try:
                q()
            except Exception:  # noqa
                pass
    if twin:
        v = AnsiStr(v)
    what = '%s.%s%r' % ('AnsiStr' if twin else 'AnsiString', meth, tuple(args))
    try:
        res = call(v, meth, list(args), seed)
    except Exception as e:  # noqa
        return [('edit-raises', '%s raised %s: %s' % (what, type(e).__name__, e))]
    kind, want = exp
    if kind == 'value':
        res = [res]
        want = [want]
    else:
        if not isinstance(res, (list, tuple)) or len(res) != len(want):
            return [('piece-count', '%s returned %d pieces, expected %d' % (what, len(res) if isinstance(res, (list, tuple)) else -1, len(want)))]
    bad = []
    for k, (r, (wt, wc)) in enumerate(zip(res, want)):
        try:
            rr = model.content(r)
            t2, c2 = model.alpha_codes(rr)
        except Exception as e:  # noqa
            bad.append(('piece-inconsistent', '%s piece %d: %s: %s' % (what, k, type(e).__name__, e)))
            continue
        if t2 != wt:
            bad.append(('piece-text', '%s piece %d has text %r, expected %r' % (what, k, t2, wt)))
            continue
        if not model.cells_equiv(c2, list(wc)):
            bad.append(('piece-cells', '%s on %r %s: piece %d %r: %s' % (what, text, cells, k, t2, model.first_diff(c2, list(wc)))))
            continue
        err = model.closed_check(rr) or model.self_check(rr)
        if err:
            bad.append(('piece-not-closed', '%s piece %d %r: %s' % (what, k, t2, err)))
    return bad


def probes_main(text, b):
    A = ['a', 'b', '-']
    pats = list(strings(A, 1, b['pat_len']))
    L = len(text)
    for sep in pats:
        for m in ('split', 'rsplit'):
            for k in (-1, -2, 0, 1, 2):
                yield m, [sep, k]
        yield 'partition', [sep]
        yield 'rpartition', [sep]
    for p in [''] + pats:
        yield 'removeprefix', [p]
        yield 'removesuffix', [p]
    for m in ('strip', 'lstrip', 'rstrip'):
        for chars in ('a', 'b', '-', 'ab', 'a-', ''):
            yield m, [chars]
    for m in CASE:
        yield m, []
    for n in range(max(0, L - 2), L + 3):
        yield 'assign', ['xyzwvuts'[:n]]
    for old in pats:
        if old not in text:
            continue
        for new in ('', 'z', 'zz', ['styled', 'one'], ['styled', 'two'], ['styled', 'str'], ['styled', 'restart'], ['styled', 'self'], old):
            for k in (-1, -2, 0, 1, 2):
                yield 'replace', [old, new, k]


def probes_ws(text):
    for m in ('split', 'rsplit'):
        yield m, []
        for k in (-1, 0, 1, 2):
            yield m, [None, k]
    yield 'splitlines', []
    yield 'splitlines', [True]
    for m in ('strip', 'lstrip', 'rstrip'):
        yield m, []
        yield m, [None]
        yield m, [' ']
    for n in (0, 1, 4):
        yield 'expandtabs', [n]
    yield 'replace', ['\t', 'zz', 1]
    yield 'split', ['\n']
    yield 'rsplit', [' ', 1]


def run_text(text, probes, acc):
    seed = acc.seed
    quick = env.tier() == 'quick'
    maxlen = max(bounds(env.tier())['len'], bounds(env.tier())['ws_len'])
    for li, h in enumerate(layouts(text, seed)):
        if quick and len(text) >= maxlen and li % 2:
            continue          # quick tier: every second layout on the longest texts
        v = build(h)
        t, cells = model.alpha_codes(v)
        acc.state(model.canon_hash(v))
        acc.evaluations += 1
        for meth, args in probes:
            # quick: AnsiStr twin on every third layout; 'pre' = the receiver is queried before the call (always for
            # assign_str, the in-place one; else on every third layout)
            for twin in ((False, 'pre') if meth == 'assign' else (False, True) if (not quick or li % 3 == 0)
                         else (False, 'pre') if li % 3 == 1 else (False,)):
                acc.transitions += 1
                case = {'hist': h, 'meth': meth, 'args': args, 'twin': twin}
                acc.current = case
                bad = check_probe(h, t, cells, meth, args, seed, twin)
                if bad is None:
                    acc.counters['not_claimed_length_change'] += 1
                    continue
                if not bad:
                    acc.validated += 1
                for clause, detail in bad:
                    acc.violation(clause, case, detail, sig=clause + ':' + meth)
            acc.outcome((meth, repr(args)[:30], text))
        acc.nontriv(model.chash((t, tuple(cells))))
        acc.sample({'hist': h, 'meth': 'split', 'args': ['b', -1], 'twin': False})


def run_long(text, probes, acc):
    seed = acc.seed
    R = explore.roles(seed)
    L = len(text)
    hs = [[['plain', text], ['apply', R['R'], L - 3, L - 1, True], ['apply', R['W'], L - 2, L, True]],
          [['plain', text], ['apply', R['R'], 0, L, True], ['apply', R['B'], L - 2, L - 1, True]],
          [['plain', text], ['apply', R['W'], 299, L - 1, True], ['apply', R['W'], 0, L, True]]]
    for h in hs:
        v = build(h)
        t, cells = model.alpha_codes(v)
        acc.state(model.canon_hash(v))
        acc.evaluations += 1
        for meth, args in probes:
            for twin in ((False, True) if meth != 'assign' else (False, 'pre')):
                acc.transitions += 1
                case = {'hist': h, 'meth': meth, 'args': args, 'twin': twin}
                acc.current = case
                bad = check_probe(h, t, cells, meth, args, seed, twin)
                if bad is None:
                    continue
                if not bad:
                    acc.validated += 1
                for clause, detail in bad:
                    acc.violation(clause, case, detail[:600], sig=clause + ':' + meth + ':long')
        acc.nontriv(model.chash((t, tuple(cells))))


def run_task(task, acc):
    b = bounds(env.tier())
    fam = task['fam']
    if fam == 'main':
        run_text(task['text'], list(probes_main(task['text'], b)), acc)
    elif fam == 'main_short':
        for t in strings(['a', 'b', '-'], 0, b['len'] - 2):
            run_text(t, list(probes_main(t, b)), acc)
    elif fam == 'ws':
        W = [' ', '\n', '\t', 'a', '\x85']
        for rest in strings(W, 0, b['ws_len'] - 2):
            t = task['prefix'] + rest
            run_text(t, list(probes_ws(t)), acc)
    elif fam == 'long':
        # pieces at offsets beyond 256: a long unformatted prefix in front of short texts
        pre = 'y' * 300
        for t in ('a-b', '-ab-', 'a--b', 'ab'):
            text = pre + t
            probes = [('split', ['-', -1]), ('split', ['-', 1]), ('rsplit', ['-', 1]), ('partition', ['-']), ('rpartition', ['-']),
                      ('removeprefix', [pre]), ('removesuffix', [t[-1:]]), ('strip', ['y']), ('lstrip', ['y']), ('rstrip', ['b-']),
                      ('replace', ['-', 'zz', -1]), ('replace', ['-', ['styled', 'one'], 1]), ('replace', ['y' * 300, '', -1]),
                      ('assign', [text + 'Q']), ('assign', [text[:-1]]), ('upper', [])]
            run_long(text, probes, acc)
    else:
        for t in strings([' ', '\n', '\t', 'a', '\x85'], 0, 1):
            run_text(t, list(probes_ws(t)), acc)


def replay(case):
    v = build(case['hist'])
    t, cells = model.alpha_codes(v)
    return check_probe(case['hist'], t, cells, case['meth'], case['args'], 0, case['twin']) or []


def describe(tier, seed):
    b = bounds(tier)
    return {
        'rule': 'values: every text over {a,b,-} up to length %d and over {space,LF,tab,a} up to length %d x layouts (rainbow, '
                'rainbow under every one-span, two abutting equal spans at every cut, head span, tail span); probes: split/rsplit '
                '(every separator up to length %d x maxsplit -1,0,1,2; None), splitlines, partition/rpartition, strip family, '
                'removeprefix/suffix (incl. empty), case methods, assign_str (L-2..L+2), replace (old occurring in the text x '
                "7 replacements incl. styled AnsiString/AnsiStr reused across matches x count), expandtabs; AnsiString and AnsiStr. "
                'Non-trivial/distinct = distinct (text, cells) values.' % (b['len'], b['ws_len'], b['pat_len']),
        'bounds': b,
        'not_claimed': 'case conversions that change the length; replace with an empty search string (style of an empty match is undefined)',
    }


def vacuity(tot, tier):
    if len(tot['nontrivial']) < 500:
        return 'too few values'
    return None
