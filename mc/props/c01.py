"""C01 - rendered output displays the text with exactly the reported per-character styles.

(A) Engine A: every state of BFS pools (apply/remove/slice/concat/pad/assign histories) rendered under all 8
flag combinations (+ str/format/f-string) and interpreted by the reference terminal from the default and from a
dirty prior state.  (B) the optimiser's bridge table enumerated directly: for every unordered pair of effect
groups, every combination of {absent, value 1, value 2, clear code as a setting} on two adjacent characters
(and a third character returning to the first style), under ballast settings that drive the
"diff shorter than reset + re-emit" comparison both ways.
"""
import itertools
from .. import env
from ..env import AnsiString, AnsiStr, AnsiSetting
from .. import model, explore, refterm as rt
from ..hist import build

ID = 'C01'
ASSUMPTIONS = ['base texts contain no ESC: rendering is in-band, a text ending in an unterminated control sequence swallows '
               'the sequence the rendering appends (DESIGN section 8)', 'the reference terminal mc/refterm.py is the reading of SGR the properties spell out']

# group -> (value 1, value 2 or None, clear code)
GV = {
    'bold': ('1', '2', '22'), 'italic': ('3', None, '23'), 'ul': ('4', '21', '24'), 'blink': ('5', '6', '25'),
    'swap': ('7', None, '27'), 'hide': ('8', None, '28'), 'strike': ('9', None, '29'), 'font': ('11', '12', '10'),
    'spacing': ('26', None, '50'), 'box': ('51', '52', '54'), 'over': ('53', None, '55'),
    'fg': ('31', '38;5;214', '39'), 'bg': ('41', '48;2;1;2;3', '49'), 'ulc': ('58;5;9', '58;2;1;2;3', '59'),
}
GROUPS = list(GV)
PAIRS = [(g, h) for i, g in enumerate(GROUPS) for h in GROUPS[i + 1:]]


def plan(tier):
    if tier == 'quick':
        return [(2, ('plain',), 'RWN', 3, False), (2, ('plain',), 'LWq', 3, False), (2, ('plain',), 'OEAVZ', 2, False), (1, ('plain',), 'RBWNX', 2, True), (2, ('plain', 'rainbow'), 'RBWN', 2, True),
                (3, ('plain',), 'RWNT', 2, False), (3, ('rainbow',), 'BUD', 1, True), (2, ('plain',), 'UDXTZ', 2, False), (3, ('parsed',), 'RW', 2, True), (2, ('plain',), 'WN', 3, False), (2, ('plain',), 'RB', 3, False), (3, ('dup1', 'dup2'), 'RW', 1, False), (4, ('rs1', 'rs2'), 'RBW', 1, False), (2, ('wide', 'wide2'), 'RW', 1, False), (3, ('plain',), 'Wyq', 2, False), (4, ('pairs',), 'R', 0, False), (3, ('tri', 'trix', 'triw'), 'R', 0, False)]
    return [(3, ('plain',), 'RWNI', 3, False), (3, ('plain',), 'LWq', 3, False), (2, ('plain',), 'LQWIH', 3, False), (3, ('plain',), 'OEAVZ', 2, False), (2, ('plain',), 'IHJSKC', 2, True), (1, ('plain',), 'RBWNXZ', 3, True), (2, ('plain', 'rainbow'), 'RBWNX', 2, True), (2, ('plain',), 'RWN', 3, True),
            (3, ('plain', 'rainbow'), 'RBWNT', 2, True), (3, ('plain',), 'RWN', 3, False), (2, ('plain',), 'UDXTZ', 2, True),
            (4, ('plain', 'rainbow'), 'RWN', 2, False), (3, ('parsed',), 'RBWN', 2, True), (4, ('parsed',), 'RW', 2, False), (3, ('dup1', 'dup2'), 'RW', 1, False), (4, ('rs1', 'rs2'), 'RBW', 2, False), (2, ('wide', 'wide2'), 'RW', 2, False), (3, ('wide',), 'RW', 1, False), (3, ('plain', 'rainbow'), 'WNyq', 2, False), (2, ('plain',), 'Wyq', 3, False), (5, ('pairs',), 'R', 0, False), (4, ('tri', 'trix', 'triw'), 'R', 0, False), (3, ('tri', 'trix', 'triw'), 'RW', 1, False)]


def tasks(tier, seed):
    out = explore.std_tasks(plan(tier))
    for i, (g, h) in enumerate(PAIRS):
        out.append({'kind': 'bridge', 'g': g, 'h': h})
    out.append({'kind': 'bridge1'})
    for grp in SIMILAR:
        for part in range(4):
            out.append({'kind': 'similar', 'grp': grp, 'part': part})
    return out


def complete_groups(code):
    """The setting text consists of complete, known SGR parameter groups only (one, or several in a verbatim setting):
    what a conforming terminal reads unambiguously."""
    if any('\x40' <= ch <= '\x7e' for ch in code):
        return False
    groups, _st, amb, dropped = rt.ref_groups(code)
    return bool(groups) and not amb and not dropped


def _sim_colour(intro):
    """Values of one colour group that differ only a little: 256-colour indices and rgb components over digits that an
    over-eager normalisation could conflate (trailing / leading zeros, powers of ten), plus the 16 plain codes."""
    base = {'38': list(range(30, 38)) + list(range(90, 98)), '48': list(range(40, 48)) + list(range(100, 108)), '58': []}[intro]
    vals = [str(c) for c in base]
    vals += ['%s;5;%d' % (intro, n) for n in (0, 1, 10, 100, 2, 20, 200, 25, 250, 255, 16)]
    comps = (0, 1, 10, 100)
    vals += ['%s;2;%d;%d;%d' % (intro, r, g, b) for r in comps for g in comps for b in comps]
    return vals


# within-group neighbours: every ordered pair of these values on two adjacent characters
SIMILAR = {
    'fg': _sim_colour('38'), 'bg': _sim_colour('48'), 'ulc': _sim_colour('58'),
    'font': [str(c) for c in range(10, 21)],
    'misc': ['1', '2', '22', '4', '21', '24', '5', '6', '25', '51', '52', '54', '53', '55', '26', '50', '73', '74', '75'],
}


def similar_cases(grp, part):
    vals = SIMILAR[grp]
    for i, a in enumerate(vals):
        if i % 4 != part:
            continue
        for b in vals:
            if a == b:
                continue
            for ballast in ([], ['3']):
                yield {'kind': 'similar', 'a': a, 'b': b, 'ballast': ballast}


def build_similar(case):
    v = AnsiString('ab')
    for b in case['ballast']:
        v.apply_formatting(AnsiSetting(b), 0, 2)
    v.apply_formatting(AnsiSetting(case['a']), 0, 1)
    v.apply_formatting(AnsiSetting(case['b']), 1, 2)
    return v


def values_of(g):
    v1, v2, clr = GV[g]
    return [None, v1] + ([v2] if v2 else []) + [clr]


def ballasts(g, h, tier):
    short = [c for c, grp in (('3', 'italic'), ('7', 'swap'), ('9', 'strike'), ('53', 'over'), ('26', 'spacing'), ('8', 'hide'))
             if grp not in (g, h)][:3]
    long_ = '48;2;9;9;9' if 'bg' not in (g, h) else ('38;2;9;9;9' if 'fg' not in (g, h) else '58;2;9;9;9')
    b = [[], [long_]]
    if tier != 'quick':
        b.append(short)
    return b


def bridge_values(g, h, tier):
    """Yield (case, value).  chars: 'ab' (and 'abc' with c = a's style in thorough)."""
    vg, vh = values_of(g), values_of(h)
    shapes = ['ab'] if tier == 'quick' else ['ab', 'aba']
    for shape in shapes:
        for s0, s1, c0, c1 in itertools.product(vg, vg, vh, vh):
            for ballast in ballasts(g, h, tier):
                sames = [False]
                if (s0 is not None and s0 == s1) or (c0 is not None and c0 == c1):
                    sames = [False, True]     # one span over both characters instead of two abutting spans
                for onespan in sames:
                    case = {'kind': 'bridge', 'shape': shape, 'g': [s0, s1], 'h': [c0, c1], 'ballast': ballast,
                            'onespan': onespan}
                    yield case


def build_bridge(case):
    shape = case['shape']
    text = 'ab' if shape == 'ab' else 'abc'
    n = len(text)
    v = AnsiString(text)
    for b in case['ballast']:
        v.apply_formatting(AnsiSetting(b), 0, n)
    for vals in (case['g'], case['h']):
        per = [vals[0], vals[1]] + ([vals[0]] if n == 3 else [])
        if case['onespan'] and per[0] is not None and per[0] == per[1]:
            v.apply_formatting(AnsiSetting(per[0]), 0, 2)
            if n == 3 and per[2] is not None:
                v.apply_formatting(AnsiSetting(per[2]), 2, 3)
        else:
            for i, c in enumerate(per):
                if c is not None:
                    v.apply_formatting(AnsiSetting(c), i, i + 1)
    return v


def check_value(v):
    bad = list(model.render_check(v))
    try:
        d = v.to_str()
        for name, got in (('str', str(v)), ('format', format(v, '')), ('fstring', f'{v}'), ('format-method', '{}'.format(v))):
            if got != d:
                bad.append(('str-format-differ', '%s(v) = %r but to_str() = %r' % (name, got, d)))
        vs = AnsiStr(v)
        for (o, rs, re_) in model.FLAGS:
            if vs.to_str(optimize=o, reset_start=rs, reset_end=re_) != v.to_str(optimize=o, reset_start=rs, reset_end=re_):
                bad.append(('ansistr-render', 'AnsiStr.to_str differs from AnsiString.to_str for flags %s' % ((o, rs, re_),)))
                break
        if str.__str__(vs) != d:
            bad.append(('ansistr-render', 'AnsiStr payload %r != rendering %r' % (str.__str__(vs), d)))
    except Exception as e:  # noqa
        bad.append(('render-raises', 'str/format raised %s: %s' % (type(e).__name__, e)))
    return bad


def run_task(task, acc):
    tier = env.tier()
    if task.get('kind') == 'bridge':
        for case in bridge_values(task['g'], task['h'], tier):
            acc.current = case
            v = build_bridge(case)
            acc.state_count += 1
            acc.evaluations += 1
            acc.transitions += 19
            bad = check_value(v)
            if not bad:
                acc.validated += 19
            for clause, detail in bad:
                acc.violation(clause, case, detail, sig=clause)
            _t, cells = model.alpha_codes(v)
            st = tuple(model.style_of(c) for c in cells)
            if st[0] != st[1]:
                acc.nontrivial_count += 1
            acc.outcome((v.to_str(), v.to_str(optimize=False)))
            acc.sample(case)
        return
    if task.get('kind') == 'similar':
        for case in similar_cases(task['grp'], task['part']):
            acc.current = case
            v = build_similar(case)
            acc.state_count += 1
            acc.evaluations += 1
            acc.transitions += 19
            cells = model.alpha_codes(v)[1]
            if any(not complete_groups(c) for cell in cells for c in cell):
                acc.counters['skipped_not_wellformed'] += 1
                continue
            bad = check_value(v)
            if not bad:
                acc.validated += 19
            for clause, detail in bad:
                acc.violation(clause, case, detail, sig=clause)
            acc.nontrivial_count += 1
            acc.outcome((v.to_str(), v.to_str(optimize=False)))
        return
    if task.get('kind') == 'bridge1':
        # single group alone, every pair of states, all ballasts
        for g in GROUPS:
            for s0, s1 in itertools.product(values_of(g), repeat=2):
                for ballast in ([], ['48;2;9;9;9'], ['3', '7', '9']):
                    case = {'kind': 'bridge', 'shape': 'aba', 'g': [s0, s1], 'h': [None, None], 'ballast': ballast, 'onespan': False}
                    v = build_bridge(case)
                    acc.state_count += 1
                    acc.evaluations += 1
                    acc.transitions += 19
                    bad = check_value(v)
                    if not bad:
                        acc.validated += 19
                    for clause, detail in bad:
                        acc.violation(clause, case, detail, sig=clause)
                    acc.nontrivial_count += 1
        return
    pool = explore.std_pool(task, acc.seed, acc)
    for h, v in pool.items:
        acc.current = {'kind': 'hist', 'hist': h}
        acc.state(model.canon_hash(v))
        acc.evaluations += 1
        acc.transitions += 19
        cells = model.alpha_codes(v)[1]
        if any(not complete_groups(c) for cell in cells for c in cell):
            acc.counters['skipped_not_wellformed'] += 1     # the property is about well-formed settings (C15 has the rest)
            continue
        explore.shape_counters(acc, cells)
        bad = check_value(v)
        if not bad:
            acc.validated += 19
        for clause, detail in bad:
            acc.violation(clause, {'kind': 'hist', 'hist': h}, detail, sig=clause)
        if len(set(cells)) > 1:
            acc.nontriv(model.chash(tuple(cells)))
        acc.outcome(v.to_str())
        acc.sample({'kind': 'hist', 'hist': h})
        # query, edit in place, render again (wave 17): the pools rebuild every value from its history, so an object was
        # never rendered / asked is_optimizable() and then changed.  Continue with a full round of queries and one
        # in-place concatenation / assignment; the piece with the two-group verbatim setting makes the value
        # non-optimizable, the others keep it optimizable.
        for ed in (['icat', ['ctor', 'z', '[1;31']], ['icat', ['ctor', 'z', '4']], ['icat', ['lit', 'z']], ['assign', 'qq']):
            h3 = h + [['read'], ed]
            case3 = {'kind': 'hist', 'hist': h3}
            acc.current = case3
            acc.transitions += 19
            acc.counters['query_edit_render'] += 1
            try:
                bad = check_value(build(h3, reads=False))
            except env.HarnessError:
                raise
            except Exception as e:  # noqa
                bad = [('render-raises', '%s after read on %s: %s: %s' % (ed, h, type(e).__name__, e))]
            if not bad:
                acc.validated += 19
            for clause, detail in bad:
                acc.violation(clause, case3, detail, sig=clause)


def replay(case):
    if case['kind'] == 'similar':
        return check_value(build_similar(case))
    v = build_bridge(case) if case['kind'] == 'bridge' else build(case['hist'])
    return check_value(v)


def describe(tier, seed):
    return {
        'rule': '(A) every state of the BFS pools in bounds; (B) bridge table: for each of the %d unordered pairs of effect '
                'groups every combination of {absent, value1, value2, clear-code} on two adjacent characters x ballasts x '
                '(one span | two abutting spans), plus every single group alone. Each value rendered under the 8 flag '
                'combinations (+str/format/f-string, AnsiStr twin) and interpreted from the default and a dirty terminal state '
                '(19 interpretations = transitions per value). Non-trivial = adjacent characters differ in style.' % len(PAIRS),
        'bounds': {'plan(L, layouts, roles, depth, structural)': [list(map(str, p)) for p in plan(tier)],
                   'group_values': GV, 'shapes': ['ab'] if tier == 'quick' else ['ab', 'aba']},
    }


def vacuity(tot, tier):
    if tot['nontrivial_count'] < 5000:
        return 'bridge table too small'
    if len(tot['outcomes']) < 2000:
        return 'too few distinct renderings'
    return None
