"""C03 - render/re-parse round trip and simplify() preserve appearance and are stable.

Engine A state invariant over BFS pools with well-formed roles and verbatim (multi-group, incomplete,
invalid, unknown-code) settings.
"""
from .. import env
from ..env import AnsiString, AnsiStr, AnsiSetting
from .. import model, explore, refterm as rt
from ..hist import build

ID = 'C03'
ASSUMPTIONS = ['base texts contain no ESC: rendering is in-band, a text ending in an unterminated control sequence swallows '
               'the sequence the rendering appends (DESIGN section 8)', 'effective style = reduction of the reported settings by mc/refterm.py']


def plan(tier):
    if tier == 'quick':
        return [(2, ('widep', 'wide'), 'RW', 1, False), (2, ('plain',), 'PWKp', 2, False), (2, ('plain',), 'LWq', 3, False), (3, ('plain',), 'LQW', 2, False), (2, ('plain',), 'OEAV', 2, False), (3, ('plain',), 'OEW', 2, False), (2, ('plain',), 'IHJSKC', 2, False), (4, ('pairs',), 'R', 0, False), (5, ('pairs',), 'R', 0, False), (3, ('tri', 'trix', 'triw'), 'R', 0, False), (1, ('plain',), 'RBWNX', 2, True), (2, ('plain', 'rainbow'), 'RBWN', 2, True),
                (3, ('plain',), 'RWXT', 2, False), (2, ('plain',), 'RWqx', 2, True), (2, ('plain',), 'BNpu', 2, False),
                (3, ('rainbow',), 'Wqx', 1, True), (3, ('plain',), 'Ryb', 2, False), (2, ('plain',), 'WyU', 2, True), (3, ('parsed',), 'RW', 2, True), (2, ('plain',), 'WFy', 2, False), (2, ('plain',), 'UDq', 2, False), (2, ('plain',), 'WN', 3, False), (2, ('plain',), 'RB', 3, False), (3, ('dup1', 'dup2'), 'RW', 1, False), (4, ('rs1', 'rs2'), 'RBW', 1, False), (2, ('wide', 'wide2'), 'RW', 1, False)]
    return [(2, ('widep', 'wide', 'wide2'), 'RW', 2, False), (3, ('plain',), 'PWKp', 2, False), (2, ('plain',), 'PWKpR', 3, False), (3, ('plain',), 'LWq', 3, False), (2, ('plain',), 'LQWIq', 3, False), (2, ('plain',), 'OEAVW', 3, False), (3, ('plain',), 'OEAVW', 2, False), (2, ('plain',), 'IHJSKCW', 2, True), (5, ('pairs',), 'R', 0, False), (6, ('pairs',), 'R', 0, False), (4, ('pairs',), 'RW', 1, False), (4, ('tri', 'trix', 'triw'), 'R', 0, False), (1, ('plain',), 'RBWNXqx', 3, True), (2, ('plain', 'rainbow'), 'RBWNX', 2, True), (2, ('plain',), 'RWN', 3, True),
            (3, ('plain', 'rainbow'), 'RBWNT', 2, True), (2, ('plain',), 'RWqxpu', 2, True), (3, ('plain',), 'RWqx', 2, False),
            (2, ('plain',), 'Rqx', 3, False), (4, ('plain', 'rainbow'), 'RWN', 2, False), (3, ('plain', 'rainbow'), 'RWyb', 2, True), (2, ('plain',), 'Ry', 3, False), (3, ('dup1', 'dup2'), 'RW', 1, False), (4, ('rs1', 'rs2'), 'RBW', 2, False), (2, ('wide', 'wide2'), 'RW', 2, False), (3, ('wide',), 'RW', 1, False)]


def tasks(tier, seed):
    return explore.std_tasks(explore.plan_override(ID, plan(tier)))


def classify(code):
    """'wf' well-formed group / reset, 'multi' valid multi-group or unknown, 'incomplete', 'invalid'."""
    if any('\x40' <= ch <= '\x7e' for ch in code):
        return 'invalid'
    groups, _st, amb, dropped = rt.ref_groups(code)
    toks, _ = rt.split_params(code)
    if amb:
        return 'incomplete'
    if dropped:
        # unknown code or incomplete group
        if any(isinstance(t, int) and t in rt.EXT for t in toks) and not any(len(g) > 1 for g in groups):
            return 'incomplete'
        return 'multi'
    return 'wf' if len(groups) == 1 else 'multi'


def check_value(v):
    bad = []
    text, cells = model.alpha_codes(v)
    kinds = set(classify(c) for cell in cells for c in cell)
    wellformed = kinds <= {'wf'}
    try:
        s = str(v)
    except Exception as e:  # noqa
        return [('render-raises', 'str(v) raised %s: %s' % (type(e).__name__, e))], wellformed
    # (1) round trip
    if wellformed:
        for nth, cls in enumerate((AnsiString, AnsiStr, AnsiString)):
            try:
                r = cls(s)
                t2, c2 = model.alpha_codes(r)
            except Exception as e:  # noqa
                bad.append(('roundtrip-raises', '%s(str(v)) raised %s: %s' % (cls.__name__, type(e).__name__, e)))
                continue
            if nth == 0:
                # the first re-parsed object is then edited in place: the later parses of the same text (nth = 1, 2) must
                # not see anything of that
                for edit in (lambda: r.apply_formatting(AnsiSetting('35')), lambda: r.__iadd__(s),
                             lambda: r.remove_formatting(None, 0, 1)):
                    try:
                        edit()
                    except Exception:  # noqa
                        pass
            if t2 != text:
                bad.append(('roundtrip-text', '%s(str(v)).base_str %r != %r' % (cls.__name__, t2, text)))
                continue
            for i in range(len(text)):
                if model.style_of(c2[i]) != model.style_of(cells[i]):
                    bad.append(('roundtrip-style', 'char %d: v reports %s (%s), re-parsed %r reports %s (%s)'
                                % (i, list(cells[i]), model.style_of(cells[i]), s, list(c2[i]), model.style_of(c2[i]))))
                    break
    # (2) simplify
    try:
        w = v.copy()
        w.simplify()
        t3, c3 = model.alpha_codes(w)
    except Exception as e:  # noqa
        bad.append(('simplify-raises', 'simplify() raised %s: %s' % (type(e).__name__, e)))
        return bad, wellformed
    if t3 != text:
        bad.append(('simplify-text', 'simplify changed the text %r -> %r' % (text, t3)))
        return bad, wellformed
    if 'incomplete' not in kinds:
        for i in range(len(text)):
            valid = tuple(c for c in cells[i] if classify(c) != 'invalid')
            want = model.style_of(valid)
            if model.style_of(c3[i]) != want:
                bad.append(('simplify-style', 'char %d: before %s (valid part displays %s), after simplify %s (%s)'
                            % (i, list(cells[i]), want, list(c3[i]), model.style_of(c3[i]))))
                break
    if 'invalid' not in kinds and '\x1b' not in text:
        # whatever the settings are (also incomplete verbatim groups that run into the next setting of their sequence):
        # what a terminal shows for the rendering must be the same before and after
        try:
            d0, d1 = rt.interpret(s), rt.interpret(str(w))
            if not d0.ambiguous and not d1.ambiguous and (d0.chars != d1.chars or d0.styles != d1.styles):
                k_ = next(i for i in range(len(d0.styles)) if i >= len(d1.styles) or d0.styles[i] != d1.styles[i]) if d0.chars == d1.chars else -1
                bad.append(('simplify-display', 'the rendering %r displays differently after simplify (%r): char %d shows %s, then %s'
                            % (s, str(w), k_, d0.styles[k_] if k_ >= 0 else d0.chars, d1.styles[k_] if 0 <= k_ < len(d1.styles) else d1.chars)))
        except env.HarnessError:
            raise
        except Exception as e:  # noqa
            bad.append(('simplify-raises', 'rendering after simplify: %s: %s' % (type(e).__name__, e)))
    try:
        if not w.is_formatting_parsable():
            bad.append(('simplify-parsable', 'is_formatting_parsable() False after simplify: %s' % (c3,)))
        if not w.is_formatting_valid() or any(classify(c) == 'invalid' for cell in c3 for c in cell):
            bad.append(('simplify-invalid-left', 'invalid settings survive simplify: %s' % (c3,)))
        s1 = str(w)
        w2 = w.copy()
        w2.simplify()
        if str(w2) != s1:
            bad.append(('simplify-idempotent', 'second simplify changes str: %r -> %r' % (s1, str(w2))))
        s2 = str(AnsiString(s1))
        if s2 != s1:
            bad.append(('simplify-fixed-point', 'str(AnsiString(str(s))) %r != str(s) %r' % (s2, s1)))
        # AnsiStr twin
        ws = AnsiStr(v).simplify()
        if type(ws) is not AnsiStr or str(ws) != s1:
            bad.append(('simplify-ansistr', 'AnsiStr.simplify() renders %r, AnsiString %r' % (str(ws), s1)))
        err = model.healthy(w)
        if err:
            bad.append(('simplify-corrupts', err))
    except Exception as e:  # noqa
        bad.append(('simplify-raises', 'after simplify: %s: %s' % (type(e).__name__, e)))
    return bad, wellformed


def run_task(task, acc):
    pool = explore.std_pool(task, acc.seed, acc)
    for h, v in pool.items:
        case = {'hist': h}
        acc.current = case
        acc.state(model.canon_hash(v))
        acc.evaluations += 1
        acc.transitions += 4     # re-parse x2, simplify, second simplify
        cells = model.alpha_codes(v)[1]
        explore.shape_counters(acc, cells)
        bad, wf = check_value(v)
        if not bad:
            acc.validated += 4
        acc.counters['wellformed_states' if wf else 'states_with_verbatim'] += 1
        for clause, detail in bad:
            acc.violation(clause, case, detail, sig=clause)
        if any(len(c) >= 2 for c in cells):
            acc.nontriv(model.chash(tuple(cells)))
        acc.outcome(str(v))
        acc.sample(case)


def replay(case):
    return check_value(build(case['hist']))[0]


def describe(tier, seed):
    return {
        'rule': 'every state of the BFS pools in bounds (roles incl. verbatim q=[32;31 multi-group, p=[38 incomplete, '
                'x=[xm invalid, u=[99 unknown): re-parse of str(v) through AnsiString and AnsiStr (well-formed states), '
                'simplify on a copy (text, style = terminal reading of the valid codes, parsable, no invalid left, idempotent, '
                'fixed point, AnsiStr twin, health). Non-trivial = some character carries >= 2 settings.',
        'bounds': {'plan(L, layouts, roles, depth, structural)': [list(map(str, p)) for p in plan(tier)],
                   'roles': explore.roles(seed)},
    }


def vacuity(tot, tier):
    c = tot['counters']
    if c.get('states_with_verbatim', 0) < 100 or c.get('wellformed_states', 0) < 1000:
        return 'too few states: %r' % dict(c)
    return None
