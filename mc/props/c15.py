"""C15 - valid / parsable flags exact; valid formatting renders well-formed escapes.

Engine B: every setting text of length 1..N over a 13-character byte alphabet, every ';'-joined token list of
<= M tokens over 15 tokens (flags queried in all orders because they are cached); every AnsiFormat member,
name, known code and in-range helper result.  Engine A: BFS pools with verbatim settings, flags vs conjunction
over the settings in use, rendering clause under all 8 flag combinations.
"""
import itertools
import re
from .. import env
from ..env import AnsiString, AnsiStr, AnsiSetting, AnsiFormat
from .. import model, explore, refterm as rt
from ..hist import build

ID = 'C15'
CHARS = ['0', '1', '2', '3', '5', '8', ';', ' ', '?', 'm', '@', '~', '\x7f', '_', '+', '-', '\uff11']
TOKENS = ['0', '1', '2', '5', '7', '31', '38', '48', '58', '99', '255', '256', '01', 'x', '', '+1', '1_0', ' 7']
VERB = ['[38', '[32;31', '[1 ', '[?', '[5:1', '[xm', '[A', '[3_1', '[+1', '[01;31', '[ 4', '[38;5;007', '[38;5;300', '[48;2;1;2;256']
# the same kind of text handed over as AnsiSetting objects (hist.mk_settings wraps un-prefixed codes)
VERB_OBJ = ['01;31', ' 4;3 ', '38;5;196;1']
SINGLE_KNOWN = (set(rt.SET) | set(rt.CLEAR))


def bounds(tier):
    return {'char_len': 4 if tier == 'quick' else 5, 'token_len': 4 if tier == 'quick' else 5,
            'token_len_ext': 5 if tier == 'quick' else 6}


def ref_valid(text):
    return not any('\x40' <= ch <= '\x7e' for ch in text)


_tok = re.compile(r'^[0-9]+$')


def ref_parsable(text):
    if not ref_valid(text):
        return False
    vals = []
    for t in text.split(';'):
        t = t.strip()
        if not _tok.match(t):
            return False
        vals.append(int(t))
    if any(v > 255 for v in vals):
        return False
    if len(vals) == 1:
        return vals[0] in SINGLE_KNOWN
    if vals[0] in rt.EXT:
        if vals[1] == 5:
            return len(vals) == 3
        if vals[1] == 2:
            return len(vals) == 5
    return False


ORDERS = ['vp', 'pv']


def check_text(text):
    bad = []
    wv, wp = ref_valid(text), ref_parsable(text)
    for order in ORDERS:
        try:
            s = AnsiSetting(text)
            got = {}
            for rnd in (1, 2):
                for q in order:
                    r = s.valid if q == 'v' else s.parsable
                    if q in got and got[q] != r:
                        bad.append(('flag-unstable', 'AnsiSetting(%r).%s changed between queries (order %s)' % (text, q, order)))
                    got[q] = r
        except Exception as e:  # noqa
            bad.append(('flag-raises', 'AnsiSetting(%r) flags raised %s: %s' % (text, type(e).__name__, e)))
            continue
        if got['v'] is not wv:
            bad.append(('valid', 'AnsiSetting(%r).valid = %r, expected %r (query order %s)' % (text, got['v'], wv, order)))
        if got['p'] is not wp:
            bad.append(('parsable', 'AnsiSetting(%r).parsable = %r, expected %r (query order %s)' % (text, got['p'], wp, order)))
    return bad


def tasks(tier, seed):
    b = bounds(tier)
    out = [{'kind': 'always'}, {'kind': 'chars_short'}, {'kind': 'tok_short'}]
    for a in range(len(CHARS)):
        for c in range(len(CHARS)):
            out.append({'kind': 'chars', 'prefix': [a, c], 'n': b['char_len']})
    for a in range(len(TOKENS)):
        for c in range(len(TOKENS)):
            n = b['token_len_ext'] if TOKENS[a] in ('38', '48', '58') else b['token_len']
            out.append({'kind': 'tok', 'prefix': [a, c], 'n': n})
    for t in explore.std_tasks(pool_plan(tier), parts=4):
        t['kind'] = 'pool'
        out.append(t)
    return out


def pool_plan(tier):
    if tier == 'quick':
        return [(2, ('plain',), 'RWX', 2, True), (3, ('plain',), 'RW', 2, False)]
    return [(2, ('plain',), 'RWX', 2, True), (3, ('plain', 'rainbow'), 'RWX', 2, True)]


_sgr = re.compile('\x1b\\[([^\x40-\x7e]*)m')


def supplied_texts(h):
    """Every setting text the history handed to the library (verbatim '[' texts without the bracket)."""
    out = set()

    def walk(x):
        if isinstance(x, str):
            out.add(x[1:] if x.startswith('[') else x)
        elif isinstance(x, (list, tuple)):
            for y in x:
                walk(y)
    walk(h)
    return out


def check_pool_value(v, h=None):
    bad = []
    text, cells = model.alpha_codes(v)
    used = [c for cell in cells for c in cell]
    if h is not None and not any(op[0] in ('reparse', 'simplify') for op in h[1:]):
        # (a value that went through the parser may have its settings re-spelled - that is the parser's job)
        # all settings of these pools are handed over as verbatim texts or AnsiSetting objects: whatever is in use must
        # be one of the supplied texts, character for character (a copy that re-spells '01;31' as '1;31' is not intact)
        sup = supplied_texts(h)
        odd = sorted(set(c for c in used if c not in sup))
        if odd:
            bad.append(('setting-rewritten', 'settings in use %r are none of the supplied texts %r' % (odd, sorted(sup - {text}))))
    want_v = all(ref_valid(c) for c in used)
    want_p = all(ref_parsable(c) for c in used)
    for obj, nm in ((v, 'AnsiString'), (AnsiStr(v), 'AnsiStr')):
        if obj.is_formatting_valid() is not want_v:
            bad.append(('formatting-valid', '%s.is_formatting_valid() = %r with settings in use %r' % (nm, obj.is_formatting_valid(), sorted(set(used)))))
        if obj.is_formatting_parsable() is not want_p:
            bad.append(('formatting-parsable', '%s.is_formatting_parsable() = %r with settings in use %r' % (nm, obj.is_formatting_parsable(), sorted(set(used)))))
    if want_v and '\x1b' not in text:
        for (o, rs, re_) in model.FLAGS:
            out = v.to_str(optimize=o, reset_start=rs, reset_end=re_)
            if _sgr.sub('', out) != text:
                bad.append(('render-wellformed', 'flags %s: removing the SGR sequences from %r leaves %r, base_str %r'
                            % ((o, rs, re_), out, _sgr.sub('', out), text)))
                break
            if not o or not want_p:
                runs = set()
                for m in _sgr.finditer(out):
                    parts = m.group(1).split(';')
                    for a in range(len(parts)):
                        for b_ in range(a + 1, len(parts) + 1):
                            runs.add(';'.join(parts[a:b_]))
                missing = [c for c in set(used) if c not in runs]
                if missing:
                    bad.append(('render-setting-intact', 'flags %s: settings %r do not appear intact in %r' % ((o, rs, re_), missing, out)))
                    break
    return bad


def run_task(task, acc):
    k = task['kind']
    if k == 'pool':
        R = explore.roles(acc.seed)
        base_gen = explore.std_gen(task, acc.seed)
        text = explore.letters(acc.seed, task['L'])

        def gen(v, h):
            ops = list(base_gen(v, h))
            L = len(v)
            if L <= 4:
                for vb in VERB + VERB_OBJ:
                    for (s, e) in explore.ranges(L):
                        ops.append(['apply', vb, s, e, True])
                        if (s, e) == (0, L):
                            ops.append(['apply', vb, s, e, False])
                # steps that copy setting objects: the right operand of a concatenation, a replacement
                ops += [['selfcat'], ['rcat', ['plain', 'z']], ['replace', text[:1], 'zz', -1, True]]
            if len(h) == 1:
                return ops[task['part']::task['parts']]
            return ops
        pool = explore.bfs([[['plain', text]]], gen, task['depth'])
        acc.counters['quarantined'] += pool.quarantined
        for h, v in pool.items:
            case = {'kind': 'pool', 'hist': h}
            acc.current = case
            acc.state(model.canon_hash(v))
            acc.evaluations += 1
            acc.transitions += 10
            bad = check_pool_value(v, h)
            if not bad:
                acc.validated += 10
            for clause, detail in bad:
                acc.violation(clause, case, detail)
            # the same value after a trip through the parser (re-parsed rendering, simplify): judged like everything else.
            # (Not BFS operations: the canonical form ignores the lazily computed flags, so a value that differs from its
            # source only in them would be merged with it and never be looked at.)
            if all(ref_valid(c) for cell in model.alpha_codes(v)[1] for c in cell) and '\x1b' not in v.base_str:
                for suffix in (['reparse'], ['simplify']):
                    h2 = h + [suffix]
                    case2 = {'kind': 'pool', 'hist': h2}
                    acc.current = case2
                    acc.transitions += 10
                    try:
                        bad = check_pool_value(build(h2), h2)
                    except env.HarnessError:
                        raise
                    except Exception as e:  # noqa
                        bad = [('pool-raises', '%s after %s: %s: %s' % (suffix[0], h, type(e).__name__, e))]
                    if not bad:
                        acc.validated += 10
                    for clause, detail in bad:
                        acc.violation(clause, case2, detail)
            # query, edit in place, query again (C15_t: a remembered is_formatting_valid() answer that `+=` and
            # remove_formatting did not drop): the flags after the edit must be those of the settings then in use
            used0 = sorted(set(c for cell in model.alpha_codes(v)[1] for c in cell))
            edits = [['icat', ['ctor', 'z', '[xm']], ['icat', ['ctor', 'z', '[38']], ['icat', ['lit', 'z']],
                     ['assign', 'q'], ['clip', 0, 0, True]]
            edits += [['remove', '[' + c, 0, len(v)] for c in used0 if not ref_parsable(c)][:3]
            for ed in edits:
                h3 = h + [['read'], ed]
                case3 = {'kind': 'pool', 'hist': h3}
                acc.current = case3
                acc.transitions += 4
                acc.counters['query_edit_query'] += 1
                try:
                    bad = [b for b in check_pool_value(build(h3, reads=False), h3)
                           if b[0] in ('formatting-valid', 'formatting-parsable', 'render-wellformed')]
                except env.HarnessError:
                    raise
                except Exception as e:  # noqa
                    bad = [('pool-raises', '%s after %s: %s: %s' % (ed, h, type(e).__name__, e))]
                if not bad:
                    acc.validated += 4
                for clause, detail in bad:
                    acc.violation(clause, case3, detail)
            used = set(c for cell in model.alpha_codes(v)[1] for c in cell)
            if any(not ref_parsable(c) for c in used):
                acc.counters['states_with_unparsable'] += 1
                acc.nontriv(model.chash(tuple(model.alpha_codes(v)[1])))
            if any(not ref_valid(c) for c in used):
                acc.counters['states_with_invalid'] += 1
        return
    if k == 'always':
        run_always(acc)
        return
    if k == 'chars_short':
        texts = list(CHARS)
    elif k == 'chars':
        pre = ''.join(CHARS[i] for i in task['prefix'])
        texts = (pre + ''.join(t) for n in range(0, task['n'] - 1) for t in itertools.product(CHARS, repeat=n))
    elif k == 'tok_short':
        texts = [t for t in TOKENS if t]
    else:
        pre = [TOKENS[i] for i in task['prefix']]
        texts = (';'.join(pre + list(t)) for n in range(0, task['n'] - 1) for t in itertools.product(TOKENS, repeat=n))
    for text in texts:
        if not text:
            continue
        acc.state_count += 1
        acc.transitions += 1
        acc.evaluations += 2
        acc.current = text
        bad = check_text(text)
        if not bad:
            acc.validated += 2
        for clause, detail in bad:
            acc.violation(clause, {'kind': 'text', 'text': text}, detail)
        wv, wp = ref_valid(text), ref_parsable(text)
        acc.outcome((wv, wp, len(text.split(';'))))
        if wp:
            acc.nontrivial_count += 1
            acc.sample({'kind': 'text', 'text': text})


def run_always(acc):
    def expect_good(what, make):
        acc.evaluations += 1
        acc.transitions += 1
        acc.state_count += 1
        try:
            v = make()
            cells = model.alpha_codes(v)[1]
            objs = v.ansi_settings_at(0)
            ok = v.is_formatting_valid() and v.is_formatting_parsable() and objs and all(s.valid and s.parsable for s in objs) \
                and all(ref_valid(c) and ref_parsable(c) for c in cells[0])
            if not ok:
                acc.violation('always-valid-parsable', {'kind': 'always', 'what': what},
                              '%s gives settings %r: valid=%r parsable=%r' % (what, cells[0], v.is_formatting_valid(), v.is_formatting_parsable()))
            else:
                acc.validated += 1
                acc.nontrivial_count += 1
        except Exception as e:  # noqa
            acc.violation('always-valid-parsable', {'kind': 'always', 'what': what}, '%s raised %s: %s' % (what, type(e).__name__, e))
    for name, member in AnsiFormat.__members__.items():
        expect_good('member:' + name, lambda m=member: AnsiString('x', m))
        expect_good('name:' + name, lambda n=name: AnsiString('x', n.lower()))
    for code in sorted(SINGLE_KNOWN):
        expect_good('int:%d' % code, lambda c=code: AnsiString('x', c))
        expect_good('str:%d' % code, lambda c=code: AnsiString('x', str(c)))
    for fn in ('rgb', 'fg_rgb', 'bg_rgb', 'ul_rgb', 'dul_rgb'):
        for args in ((0, 0, 0), (255, 255, 255), (1, 127, 255), (0xFFFFFF,), (0,), (0x010203,)):
            expect_good('%s%r' % (fn, args), lambda f=fn, a=args: AnsiString('x', getattr(AnsiFormat, f)(*a)))
    for fn in ('color256', 'colour256', 'fg_color256', 'bg_color256', 'ul_color256', 'dul_color256', 'fg_colour256',
               'bg_colour256', 'ul_colour256'):
        for n in (0, 1, 127, 255):
            expect_good('%s(%d)' % (fn, n), lambda f=fn, a=n: AnsiString('x', getattr(AnsiFormat, f)(a)))


def replay(case):
    if case['kind'] == 'text':
        return check_text(case['text'])
    if case['kind'] == 'pool':
        return check_pool_value(build(case['hist']), case['hist'])
    from ..runner import Acc
    acc = Acc(0)
    run_always(acc)
    return [(v['clause'], v['detail']) for v in acc.violations if v['case'] == case]


def describe(tier, seed):
    b = bounds(tier)
    return {
        'rule': 'every text of length 1..%d over %r; every ;-joined list of 1..%d tokens (%d when it starts with 38/48/58) over '
                '%r; each queried valid->parsable and parsable->valid twice; all AnsiFormat members/names, known codes, helper '
                'results; BFS pools with verbatim settings %r: flags vs conjunction over settings in use, SGR-removal clause under '
                'all 8 flag combinations. Non-trivial = parsable texts / states with an unparsable setting.'
                % (b['char_len'], CHARS, b['token_len'], b['token_len_ext'], TOKENS, VERB),
        'bounds': b,
        'reading': 'tokens with surrounding spaces or leading zeros are judged by their integer value',
    }


def vacuity(tot, tier):
    c = tot['counters']
    if c.get('states_with_invalid', 0) == 0 or c.get('states_with_unparsable', 0) == 0:
        return 'no pool state with invalid/unparsable settings'
    if tot['nontrivial_count'] < 1000:
        return 'too few parsable texts'
    return None
