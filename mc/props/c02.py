"""C02 - constructing from ANSI-coded text preserves text and appearance.

Engine B: (1) every code list of length 0..N over an 11-code alphabet placed after 5 prior contexts;
(2) every sequence of <= M tokens over a 13-token alphabet (text, SGR sequences, non-SGR and unterminated
control sequences, lone ESC / '[').  Oracle: the reference terminal run over the raw input.
"""
import itertools
from .. import env
from ..env import AnsiString, AnsiStr, AnsiSetting
from .. import refterm as rt
from .. import model

ID = 'C02'
E = '\x1b'
CODES = [0, 1, 22, 31, 39, 38, 48, 5, 2, 7, 99]
CTX = ['', '1', '31', '38;5;7', '1;31']
TOKENS = ['a', 'b', E + '[1m', E + '[31m', E + '[0m', E + '[m', E + '[22;34m', E + '[1;38;5;214m',
          E + '[2J', E + '[?25h', E + '[1', E, '[', E + '[3~', E + '[@']
ASSUMPTIONS = ['inputs whose reading by a conforming terminal is ambiguous (38;x with x not 2/5, components > 255) are '
               'checked for text only and counted under excluded_ambiguous']


def bounds(tier):
    return {'codes_len': 5 if tier == 'quick' else 6, 'tokens_len': 4 if tier == 'quick' else 6,
            'ansistr_tokens_len': 3 if tier == 'quick' else 5}


def tasks(tier, seed):
    b = bounds(tier)
    out = [{'kind': 'codes_short'}]
    for a in range(len(CODES)):
        for c in range(len(CODES)):
            out.append({'kind': 'codes', 'prefix': [a, c], 'n': b['codes_len']})
    out.append({'kind': 'tok_short'})
    for part in range(4):
        out.append({'kind': 'code_pairs', 'part': part})
    out.append({'kind': 'trunc'})
    out.append({'kind': 'oddparams'})
    for a in range(len(TOKENS)):
        out.append({'kind': 'tok_long', 'first': a})
    for a in range(len(TOKENS)):
        for c in range(len(TOKENS)):
            out.append({'kind': 'tok', 'prefix': [a, c], 'n': b['tokens_len'], 'ns': b['ansistr_tokens_len']})
    return out


def check_raw(raw, cls='AnsiString'):
    """Returns (violations, ambiguous, n_sgr)."""
    d = rt.interpret(raw)
    try:
        if cls == 'reuse':
            # the parser entry point on an object that has been used before: nothing of the old content may survive
            v = AnsiString('wxyzwxyz', AnsiSetting('35'), AnsiSetting('4'))
            v.apply_formatting(AnsiSetting('41'), 1, 3)
            v.set_ansi_str(raw)
        elif cls == 'again':
            # the same input parsed a second time, after the first result has been edited in place and appended to:
            # whatever the parser remembers of the first time must not show in the second
            u = AnsiString(raw)
            for edit in (lambda: u.apply_formatting(AnsiSetting('35')), lambda: u.remove_formatting(None, 0, 1),
                         lambda: u.__iadd__(raw), lambda: u.clear_formatting()):
                try:
                    edit()
                except Exception:  # noqa
                    pass
            v = AnsiString(raw)
        else:
            v = AnsiString(raw) if cls == 'AnsiString' else AnsiStr(raw)
        text, cells = model.alpha_codes(v)
    except Exception as e:  # noqa
        return [('parse-raises', '%s(%r) raised %s: %s' % (cls, raw, type(e).__name__, e))], d.ambiguous, d.n_sgr
    bad = []
    if text != d.chars:
        bad.append(('text', '%s(%r).base_str = %r, expected %r' % (cls, raw, text, d.chars)))
        return bad, d.ambiguous, d.n_sgr
    if d.n_sgr == 0:
        if any(cells):
            bad.append(('unformatted', 'input without SGR sequences reports settings %r' % (cells,)))
        return bad, d.ambiguous, 0
    if d.ambiguous:
        # '38;x' readings: every character must show one of the admissible styles (computed sequence by sequence)
        adm = admissible_display(raw)
        if adm is not None:
            for i, c in enumerate(cells):
                got = model.style_of(c)
                if got not in adm[i]:
                    bad.append(('style', '%s(%r): char %d (%r) reports %s = %s; admissible terminal styles %s'
                                % (cls, raw, i, text[i], list(c), got, sorted(adm[i]))))
                    break
            return bad, False, d.n_sgr
    if not d.ambiguous:
        for i, c in enumerate(cells):
            got = model.style_of(c)
            if got != d.styles[i]:
                bad.append(('style', '%s(%r): char %d (%r) reports %s = %s; terminal shows %s'
                            % (cls, raw, i, text[i], list(c), got, d.styles[i])))
                break
    return bad, d.ambiguous, d.n_sgr


def admissible_display(raw):
    """Per displayed character the set of admissible styles, or None if some sequence is ambiguous for another
    reason than 38;x."""
    states = {rt.DEFAULT}
    out = []
    pos = 0
    for (a, b, params) in rt.find_sgr(raw):
        out.extend([set(states)] * (a - pos))
        nxt = set()
        for st in states:
            r = rt.admissible_states(params, st)
            if r is None:
                return None
            nxt |= r
        states = nxt
        pos = b
    out.extend([set(states)] * (len(raw) - pos))
    return out


def run_raw(raw, acc, classes=('AnsiString',)):
    for cls in classes:
        acc.evaluations += 1
        bad, amb, n = check_raw(raw, cls)
        if amb:
            acc.counters['excluded_ambiguous'] += 1
        else:
            acc.validated += 1
        for clause, detail in bad:
            acc.violation(clause, {'raw': raw, 'cls': cls}, detail)
    return amb, n


def run_task(task, acc):
    k = task['kind']
    seed = acc.seed
    C = list(CODES)
    C[3] = 30 + (1 + seed) % 8
    if k in ('codes', 'codes_short'):
        if k == 'codes_short':
            lists = [[]] + [[a] for a in C]
        else:
            pre = [C[i] for i in task['prefix']]
            lists = (pre + list(t) for n in range(0, task['n'] - 1) for t in itertools.product(C, repeat=n))
        for lst in lists:
            params = ';'.join(map(str, lst))
            acc.state_count += 1
            if lst:
                acc.transitions += 1
            for ctx in CTX:
                variants = [E + '[' + params + 'ma'] if not ctx else \
                    [E + '[' + ctx + 'mb' + E + '[' + params + 'ma', E + '[' + ctx + 'm' + E + '[' + params + 'ma']
                for raw in variants:
                    acc.current = raw
                    amb, _n = run_raw(raw, acc)
            if not amb:
                acc.nontrivial_count += 1
                acc.outcome(rt.reduce_params(params)[0])
            acc.sample({'raw': E + '[1mb' + E + '[' + params + 'ma', 'cls': 'AnsiString'})
        return
    if k == 'trunc':
        # a sequence that ends inside an extended-colour group, directly followed by another sequence: the group ends
        # with its sequence and must not swallow the parameters of the next one
        heads = ['38', '48', '58', '38;5', '48;2', '38;2;1', '1;38', '1;48;5', '38;2;1;2', '4;58;5']
        tails = ['5', '2', '4', '', '0', '5;1', '2;1;2;3', '1;2;3', '38;5;1', '7;5']
        for ctx in ('', E + '[31;1mA'):
            for h_ in heads:
                for t_ in tails:
                    for raw in (ctx + E + '[' + h_ + 'm' + E + '[' + t_ + 'mX' + E + '[mY', ctx + E + '[' + h_ + 'mW' + E + '[' + t_ + 'mX'):
                        acc.state_count += 1
                        acc.transitions += 1
                        acc.current = {'raw': raw, 'cls': 'AnsiString'}
                        amb, n = run_raw(raw, acc, ('AnsiString', 'AnsiStr'))
                        acc.nontrivial_count += 1
        return
    if k == 'oddparams':
        # parameters that are no plain decimal numbers (signs, huge values, fractions, spaces, non-ASCII digits): whatever they
        # mean to a terminal, the text must survive and nothing may raise; where the reference reading is unambiguous the style
        # is compared as well
        odd = ['-1', '-22', '-108', '-200', '-0', '+1', '1.5', '1e1', ' 1', '1 ', '0x1f', '\u0663', '999', '1000', '99999999999999999999',
               '256', '1;-1', '-1;1', '38;5;-1', '38;2;1;-2;3', '38;-5;1', ';-1;']
        for ctx in ('', E + '[41;1mA', E + '[31mA' + E + '[4mB'):
            for p_ in odd:
                for raw in (ctx + E + '[' + p_ + 'mX', ctx + E + '[' + p_ + 'mX' + E + '[mY', ctx + E + '[7;' + p_ + 'mX'):
                    acc.state_count += 1
                    acc.transitions += 1
                    acc.current = {'raw': raw, 'cls': 'AnsiString'}
                    amb, n = run_raw(raw, acc, ('again', 'AnsiString', 'AnsiStr', 'reuse'))
                    acc.nontrivial_count += 1
        return
    if k == 'code_pairs':
        # every ordered pair of known single codes (all effect groups, set and clear codes): one sequence, two sequences
        # with text between them, and the second one on top of a colour
        known = sorted(rt.KNOWN_CODES - {38, 48, 58})
        for i, a in enumerate(known):
            if i % 4 != task['part']:
                continue
            for b in known:
                for raw in (E + '[%d;%dmx' % (a, b), E + '[%dmx' % a + E + '[%dmy' % b, E + '[38;5;9;%dmx' % a + E + '[%dmy' % b + E + '[mz'):
                    acc.state_count += 1
                    acc.transitions += 1
                    acc.current = {'raw': raw, 'cls': 'AnsiString'}
                    amb, n = run_raw(raw, acc, ('AnsiString',))
                    if n:
                        acc.nontrivial_count += 1
        return
    T = TOKENS
    if k == 'tok_long':
        # the same token language behind 300 characters of plain text (change points at offsets > 256)
        seqs = ((task['first'],) + t for n in range(0, 3) for t in itertools.product(range(len(T)), repeat=n))
        for sq in seqs:
            raw = 'a' * 300 + ''.join(T[i] for i in sq) + 'z'
            acc.state_count += 1
            acc.transitions += 1
            acc.current = {'raw': raw, 'cls': 'AnsiString'}
            amb, n = run_raw(raw, acc, ('AnsiString',))
            if n:
                acc.nontrivial_count += 1
        return
    if k == 'tok_short':
        seqs = [()] + [(a,) for a in range(len(T))]
        ns = 9
    else:
        pre = tuple(task['prefix'])
        seqs = (pre + t for n in range(0, task['n'] - 1) for t in itertools.product(range(len(T)), repeat=n))
        ns = task['ns']
    for sq in seqs:
        raw = ''.join(T[i] for i in sq)
        acc.state_count += 1
        if sq:
            acc.transitions += 1
        acc.current = raw
        classes = ('again', 'AnsiString', 'AnsiStr', 'reuse') if len(sq) <= ns else ('AnsiString',)
        amb, n = run_raw(raw, acc, classes)
        if n:
            acc.nontrivial_count += 1
            d = rt.interpret(raw)
            acc.outcome((tuple(d.styles[-2:]), len(d.chars)))
            acc.sample({'raw': raw, 'cls': 'AnsiString'})


def replay(case):
    return check_raw(case['raw'], case['cls'])[0]


def describe(tier, seed):
    b = bounds(tier)
    return {
        'rule': '(1) every code list of length 0..%d over %r, rendered as one SGR sequence after each of the contexts %r '
                '(separated by a character, and abutting); (2) every sequence of 0..%d tokens over %r; AnsiStr additionally up to '
                '%d tokens. Non-trivial: the input contains an SGR sequence. states = prefix-tree nodes.'
                % (b['codes_len'], CODES, CTX, b['tokens_len'], TOKENS, b['ansistr_tokens_len']),
        'bounds': b,
    }


def vacuity(tot, tier):
    if tot['nontrivial_count'] < 50000:
        return 'too few inputs with SGR sequences'
    if len(tot['outcomes']) < 100:
        return 'too few distinct displays'
    return None
