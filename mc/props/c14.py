"""C14 - all documented spellings of a setting give the same codes; bad ones rejected.

Engine B: exhaustive over every AnsiFormat member name x spelling variants x wrappers, every SGR code 0..255 as
int/str/zero-padded, every rgb/color256 string shape x boundary values, all ordered pairs (triples in thorough)
of 12 base forms x 4 ways of combining them, and a menu of rejections.
"""
import itertools
from .. import env
from ..env import AnsiString, AnsiStr, AnsiSetting, AnsiFormat
from .. import model

ID = 'C14'


def reported(v):
    return list(model.alpha_codes(v)[1][0])


def construct(form, how='ctor'):
    """form: a single settings argument (or a tuple marked ('ARGS', ...) for several positional arguments)."""
    args = form[1:] if isinstance(form, tuple) and form and form[0] == 'ARGS' else (form,)
    if how == 'ctor':
        return AnsiString('x', *args)
    if how == 'str':
        return AnsiStr('x', *args)
    if how == 'apply':
        v = AnsiString('x')
        v.apply_formatting(list(args))
        return v
    raise env.HarnessError(how)


def wrappers(x):
    return [x, [x], (x,), [[x]], [[], x], ('ARGS', x)]


def name_spellings(name):
    low = name.lower()
    title = '-'.join(p.capitalize() for p in low.split('_'))
    mixed = ''.join(c.upper() if i % 2 else c for i, c in enumerate(low))
    return [name, low, title, low.replace('_', ' '), mixed, low.replace('_', '-').upper()]


def member_codes(member):
    return [str(s) for s in member.ansi_settings]


def double_application(form):
    """Two overlapping applications of one spelling must behave as two separate settings (identity is what the
    library tracks): slices, concatenation and removal afterwards stay consistent.  Returns None or text."""
    args = form[1:] if isinstance(form, tuple) and form and form[0] == 'ARGS' else (form,)
    try:
        v = AnsiString('abcd', *args)
        v.apply_formatting(list(args), 1, 3)
        err = model.healthy(v)
        if err:
            return err
        for (i, j) in ((0, 3), (1, 3), (2, 4), (0, 1)):
            err = model.healthy(v[i:j])
            if err:
                return 'slice [%d:%d]: %s' % (i, j, err)
        w = AnsiString('x', *args) + v
        err = model.healthy(w)
        if err:
            return 'concatenation: ' + err
        t, cells = model.alpha_codes(w)
        one = list(model.alpha_codes(AnsiString('x', *args))[1][0])
        want = [one, one, one + one, one + one, one]
        if [sorted(c) for c in cells] != [sorted(c) for c in want]:
            return 'cells after double application + concatenation: %r expected %r' % (cells, want)
    except Exception as e:  # noqa
        return 'raised %s: %s' % (type(e).__name__, e)
    return None


def check_class(canon, forms, label, hows=('ctor',)):
    """Every form must give the reported settings `canon` and the same rendering as the first form."""
    bad = []
    ref_render = None
    for form in forms:
        for how in hows:
            try:
                v = construct(form, how)
                got = reported(v)
                # rendering of the value as it is, its flags, and the rendering once more text with another setting follows
                # (only then does it matter whether the optimiser takes the setting for parsable)
                w_ = AnsiString(v) + AnsiString('yz', AnsiSetting('3'))
                w_.apply_formatting(AnsiSetting('9'), 0, 2)
                rend = (str(v), v.is_formatting_valid(), v.is_formatting_parsable(), str(w_), w_.to_str(optimize=False))
            except Exception as e:  # noqa
                bad.append(('spelling-raises', '%s: %r via %s raised %s: %s' % (label, form, how, type(e).__name__, e)))
                continue
            if canon is None:
                canon = got             # no reference value: the forms only have to agree with each other
            if got != canon:
                bad.append(('spelling-codes', '%s: %r via %s reports %r, expected %r' % (label, form, how, got, canon)))
            elif how == 'ctor':
                err = double_application(form)
                if err:
                    bad.append(('spelling-shares-objects', '%s: %r applied twice (overlapping): %s' % (label, form, err)))
            if ref_render is None:
                ref_render = rend
            elif rend != ref_render:
                bad.append(('spelling-render', '%s: %r via %s renders %r, first form renders %r' % (label, form, how, rend, ref_render)))
    return bad


# --- rgb / color256 reference (from the statement) ------------------------------------------------------------

PFX = {'': ('38', None), 'fg_': ('38', None), 'bg_': ('48', None), 'ul_': ('58', '4'), 'dul_': ('58', '21')}


def canon_rgb(pfx, r, g, b):
    intro, pre = PFX[pfx]
    cl = lambda x: min(255, max(0, x))
    out = [pre] if pre else []
    return out + ['%s;2;%d;%d;%d' % (intro, cl(r), cl(g), cl(b))]


def canon_rgb24(pfx, v):
    return canon_rgb(pfx, (v >> 16) & 0xFF, (v >> 8) & 0xFF, v & 0xFF)


def canon_256(pfx, n):
    intro, pre = PFX[pfx]
    out = [pre] if pre else []
    return out + ['%s;5;%d' % (intro, n)]


def num_forms(n):
    return [str(n), '0x%x' % n, '0x%X' % n, '0x0%x' % n]


def tasks(tier, seed):
    names = list(AnsiFormat.__members__)
    out = []
    step = 40
    for i in range(0, len(names), step):
        out.append({'kind': 'names', 'lo': i, 'hi': min(len(names), i + step)})
    out.append({'kind': 'codes'})
    for pfx in PFX:
        out.append({'kind': 'rgb', 'pfx': pfx})
    for i in range(len(base_forms())):
        out.append({'kind': 'mix', 'first': i})
    out.append({'kind': 'reject'})
    return out


def base_forms():
    X = AnsiFormat.color256(214)
    return [
        (['31'], AnsiFormat.FG_RED, 'M'), (['31'], 'fg_red', 'S'), (['31'], 31, 'I'), (['31'], '[31', 'V'),
        (['1'], AnsiFormat.BOLD, 'M'), (['1'], 'Bold', 'S'), (['1'], 1, 'I'), (['1'], '[1', 'V'),
        (['38;5;214'], X, 'M'), (['38;5;214'], 'color256(214)', 'S'), (['38;5;214'], ('INTS', 38, 5, 214), 'I'),
        (['38;5;214'], '[38;5;214', 'V'),
        # one extended-colour group spelled as an int followed by a numeric string, and as three numeric strings
        (['38;5;214'], ('INTS', 38, '5;214'), 'I'), (['38;5;214'], ('INTS', '38', '5', '214'), 'I'),
    ]


def combine(parts, mode):
    """parts: list of base forms -> one constructor form, or None when the mode does not apply."""
    def flat(p):
        return list(p[1:]) if isinstance(p, tuple) and p and p[0] == 'INTS' else [p]
    if mode == 'args':
        out = []
        for p in parts:
            out.extend(flat(p))
        return ('ARGS',) + tuple(out)
    if mode == 'list':
        out = []
        for p in parts:
            out.extend(flat(p))
        return out
    if mode == 'nested':
        out = []
        for i, p in enumerate(parts):
            f = flat(p)
            if i % 2 == 0:
                out.append(f if len(f) > 1 or isinstance(f[0], (list, tuple)) else (f[0],))
            else:
                # split an int run across a list boundary
                out.extend([f[0], f[1:]] if len(f) > 1 else [[f[0]]])
        return out
    if mode == 'string':
        toks = []
        for p in parts:
            if isinstance(p, str) and not p.startswith('['):
                toks.append(p)
            elif isinstance(p, int):
                toks.append(str(p))
            elif isinstance(p, tuple) and p[0] == 'INTS':
                toks.extend(str(x) for x in p[1:])
            else:
                return None
        return ';'.join(toks)
    raise env.HarnessError(mode)


def rejections():
    l1 = []
    l1.append(l1)
    l2 = [[]]
    l2[0].append(l2)
    l3 = [[[]]]
    l3[0][0].append(l3)
    t = [31]
    t.append((1, t))
    R = [
        ('unknown name', 'no_such_name', ValueError), ('near miss', 'fg_redd', ValueError), ('near miss', 'bold_', ValueError),
        ('near miss', 'fgred', ValueError), ('negative int', -1, ValueError), ('negative int', -31, ValueError),
        ('negative str', '-1', ValueError), ('negative in list', [1, -5], ValueError), ('negative in string', '1;-5', ValueError),
        ('rgb missing component', 'rgb(1,2)', ValueError), ('rgb extra component', 'rgb(1,2,3,4)', ValueError),
        ('rgb bad digits', 'rgb(x,1,2)', ValueError), ('rgb bad digits', 'rgb(1,2,g)', ValueError), ('rgb empty', 'rgb()', ValueError),
        ('rgb negative', 'rgb(-1,2,3)', ValueError), ('rgb negative', 'bg_rgb(1,-2,3)', ValueError),
        ('rgb hex digits without 0x', 'rgb(ff,0,0)', ValueError), ('rgb hex digits without 0x', 'rgb(1,2,a)', ValueError),
        ('color256 empty', 'color256()', ValueError), ('color256 two values', 'color256(1,2)', ValueError),
        ('color256 negative', 'colour256(-1)', ValueError), ('color256 bad digits', 'fg_color256(zz)', ValueError),
        ('color256 hex digits without 0x', 'ul_color256(ff)', ValueError),
        ('rgb unknown prefix', 'xx_rgb(1,2,3)', ValueError), ('rgb unclosed', 'rgb(1,2,3', ValueError),
        ('float', 1.5, TypeError), ('None in list', [None], TypeError), ('None in list', [31, None], TypeError),
        ('bytes', b'31', TypeError), ('dict', {'a': 1}, TypeError), ('dict in list', [{}], TypeError), ('set', {31}, TypeError),
        ('object', object(), TypeError), ('float in tuple', (1, 2.0), TypeError),
        ('list containing itself depth 1', l1, ValueError), ('list containing itself depth 2', l2, ValueError),
        ('list containing itself depth 3', l3, ValueError), ('list containing itself via tuple', t, ValueError),
    ]
    return R


# a valid spelling and a malformed one that differs from it only in characters which the *name* lookup treats alike (space,
# hyphen, underscore, letter case): the malformed one must be rejected also when the valid one has just been used
AFTER = [(' 31', '-31'), ('1; 31', '1;-31'), (' 31', '_31'), ('rgb(1, 2,3)', 'rgb(1,-2,3)'), ('rgb(1, 2,3)', 'rgb(1,_2,3)'),
         ('color256( 100)', 'color256(-100)'), ('bg_rgb( 1,2,3)', 'bg_rgb(-1,2,3)'), ('bg_color256( 7)', 'bg_color256(-7)'),
         ('fg red', 'fg red-'), ('31', '31-'), ('rgb(0x10, 2, 3)', 'rgb(0x1g, 2, 3)')]


def check_reject(label, form, exc, how):
    try:
        v = construct(form, how)
    except exc:
        return []
    except RecursionError as e:
        return [('reject-wrong-error', '%s via %s raised RecursionError instead of %s' % (label, how, exc.__name__))]
    except Exception as e:  # noqa
        return [('reject-wrong-error', '%s (%.60r) via %s raised %s (%s) instead of %s'
                 % (label, form, how, type(e).__name__, e, exc.__name__))]
    return [('reject-accepted', '%s (%.60r) via %s was accepted: reports %r, expected %s'
             % (label, form, how, reported(v), exc.__name__))]


def run_case(acc, case, bad, n):
    acc.evaluations += n
    acc.transitions += n
    acc.state_count += 1
    if not bad:
        acc.validated += n
    for clause, detail in bad:
        acc.violation(clause, case, detail)


def do_case(case):
    """Returns (violations, number of constructions)."""
    k = case['kind']
    if k == 'name':
        name = case['name']
        member = AnsiFormat[name]
        canon = member_codes(member)
        forms = []
        ints = []
        for c in canon:
            ints.extend(int(x) for x in c.split(';'))
        basic = [member] + name_spellings(name) + [list(ints), tuple(ints), ('ARGS',) + tuple(ints),
                                                   ';'.join(map(str, ints)), ['[' + c for c in canon],
                                                   [AnsiSetting(c) for c in canon]]
        for b in basic:
            forms.extend(wrappers(b) if not (isinstance(b, tuple) and b and b[0] == 'ARGS') else [b])
        bad = check_class(canon, forms, 'AnsiFormat.' + name, hows=('ctor', 'apply', 'str'))
        # through a format spec too (names without characters that the spec grammar would eat)
        try:
            r1 = format(AnsiString('x'), ':' + name.lower())
            r2 = str(AnsiString('x', member))
            if r1 != r2:
                bad.append(('spelling-render', "format(x, ':%s') = %r, member renders %r" % (name.lower(), r1, r2)))
        except Exception as e:  # noqa
            bad.append(('spelling-raises', "format(x, ':%s') raised %s: %s" % (name.lower(), type(e).__name__, e)))
        return bad, len(forms) * 3 + 1
    if k == 'code':
        c = case['code']
        canon = reported(AnsiString('x', AnsiSetting(str(c))))
        forms = [c, str(c), '0' + str(c), '00' + str(c), [c], (c,), [str(c)], '[' + str(c), ' %d ' % c]
        return check_class([str(c)], forms, 'code %d' % c, hows=('ctor', 'apply')), len(forms) * 2
    if k == 'rgb3':
        pfx, r, g, b = case['pfx'], case['r'], case['g'], case['b']
        canon = canon_rgb(pfx, r, g, b)
        forms = []
        for fr, fg_, fb in itertools.product(num_forms(r)[:2], num_forms(g)[:3], num_forms(b)[:2]):
            for (o, c) in (('', ''), ('[', ']'), ('(', ')')):
                forms.append('%srgb(%s%s,%s,%s%s)' % (pfx, o, fr, fg_, fb, c))
            forms.append('%srgb( %s , %s ,  %s )' % (pfx, fr, fg_, fb))
        # long spellings of one component at a time (four and more digits: zero-padded, or simply large)
        for pos in range(3):
            for wide in ('%04d', '0x%04X', '%06d'):
                comp3 = [str(r), str(g), str(b)]
                comp3[pos] = wide % (r, g, b)[pos]
                forms.append('%srgb(%s,%s,%s)' % (pfx, comp3[0], comp3[1], comp3[2]))
        fn = getattr(AnsiFormat, (pfx or 'fg_') + 'rgb')
        forms.append(fn(r, g, b))
        forms.append([fn(r, g, b)])
        if pfx == '':
            forms.append(AnsiFormat.rgb(r, g, b))
        from ..env import lib_format
        comp = {'': 'FOREGROUND', 'fg_': 'FOREGROUND', 'bg_': 'BACKGROUND', 'ul_': 'UNDERLINE', 'dul_': 'DOUBLE_UNDERLINE'}[pfx]
        forms.append(AnsiFormat.rgb(r, g, b, getattr(lib_format.ColorComponentType, comp)))
        forms.append(AnsiFormat.rgb(r, g, b, component=getattr(lib_format.ColourComponentType, comp)))
        return check_class(canon, forms, '%srgb(%d,%d,%d)' % (pfx, r, g, b), hows=('ctor', 'str')), len(forms) * 2
    if k == 'rgb1':
        pfx, v = case['pfx'], case['v']
        canon = canon_rgb24(pfx, v)
        forms = []
        for f in num_forms(v):
            for (o, c) in (('', ''), ('[', ']'), ('(', ')'), (' ', ' ')):
                forms.append('%srgb(%s%s%s)' % (pfx, o, f, c))
        fn = getattr(AnsiFormat, (pfx or 'fg_') + 'rgb')
        forms.append(fn(v))
        from ..env import lib_format
        comp = {'': 'FOREGROUND', 'fg_': 'FOREGROUND', 'bg_': 'BACKGROUND', 'ul_': 'UNDERLINE', 'dul_': 'DOUBLE_UNDERLINE'}[pfx]
        forms.append(AnsiFormat.rgb(v, component=getattr(lib_format.ColorComponentType, comp)))
        return check_class(canon, forms, '%srgb(%#x)' % (pfx, v), hows=('ctor',)), len(forms)
    if k == 'c256':
        pfx, n = case['pfx'], case['n']
        canon = canon_256(pfx, n) if n <= 255 else None      # out of range: the statement is silent, the spellings must still agree
        forms = []
        for word in ('color256', 'colour256'):
            for f in num_forms(n):
                for (o, c) in (('', ''), ('[', ']'), ('(', ')'), (' ', ' ')):
                    forms.append('%s%s(%s%s%s)' % (pfx, word, o, f, c))
            forms.append(getattr(AnsiFormat, (pfx or 'fg_') + word)(n))
        if pfx == '':
            forms.append(AnsiFormat.color256(n))
        # the same codes as integers and as a ';'-separated string
        intro_, pre_ = PFX[pfx]
        ints_ = ([int(pre_)] if pre_ else []) + [int(intro_), 5, n]
        forms.append(list(ints_))
        forms.append(';'.join(str(x) for x in ints_))
        forms.append(('ARGS',) + tuple(ints_))
        # the generic helpers with an explicit component (positional and by keyword), both spellings
        from ..env import lib_format
        comp = {'': 'FOREGROUND', 'fg_': 'FOREGROUND', 'bg_': 'BACKGROUND', 'ul_': 'UNDERLINE', 'dul_': 'DOUBLE_UNDERLINE'}[pfx]
        for enum_name in ('ColorComponentType', 'ColourComponentType'):
            c = getattr(getattr(lib_format, enum_name), comp)
            for word in ('color256', 'colour256'):
                forms.append(getattr(AnsiFormat, word)(n, c))
                forms.append(getattr(AnsiFormat, word)(n, component=c))
        return check_class(canon, forms, '%scolor256(%d)' % (pfx, n), hows=('ctor',)), len(forms)
    if k == 'helper':
        # helper functions at out-of-range integers: clamped
        pfx, r, g, b = case['pfx'], case['r'], case['g'], case['b']
        fn = getattr(AnsiFormat, (pfx or 'fg_') + 'rgb')
        return check_class(canon_rgb(pfx, r, g, b), [fn(r, g, b)], '%srgb helper(%d,%d,%d)' % (pfx, r, g, b)), 1
    if k == 'mix':
        B = base_forms()
        parts = [B[i] for i in case['idx']]
        canon = []
        for p in parts:
            canon.extend(p[0])
        bad = []
        n = 0
        for mode in ('args', 'list', 'nested', 'string'):
            form = combine([p[1] for p in parts], mode)
            if form is None:
                continue
            n += 2
            bad.extend(check_class(canon, [form], 'mixture %s as %s' % ([repr(p[1])[:30] for p in parts], mode), hows=('ctor', 'apply')))
        return bad, n
    if k == 'reject_after':
        bad = []
        valid, invalid = AFTER[case['i']]
        for how in ('ctor', 'apply', 'str'):
            try:
                construct(valid, how)
            except Exception as e:  # noqa
                bad.append(('spelling-raises', '%r via %s raised %s: %s' % (valid, how, type(e).__name__, e)))
            bad.extend(check_reject('malformed sibling of %r, used just before' % valid, invalid, ValueError, how))
        return bad, 6
    if k == 'reject':
        bad = []
        for how in ('ctor', 'apply', 'str'):
            bad.extend(check_reject(case['label'], rejections()[case['i']][1], rejections()[case['i']][2], how))
        return bad, 3
    raise env.HarnessError(k)


def run_task(task, acc):
    tier = env.tier()
    k = task['kind']
    cases = []
    if k == 'names':
        names = list(AnsiFormat.__members__)
        cases = [{'kind': 'name', 'name': n} for n in names[task['lo']:task['hi']]]
    elif k == 'codes':
        cases = [{'kind': 'code', 'code': c} for c in range(256)]
    elif k == 'rgb':
        pfx = task['pfx']
        vals = [0, 1, 127, 255, 256, 300, 1000, 0x1000]
        for r, g, b in itertools.product(vals, repeat=3):
            if tier == 'quick' and len({r, g, b} & {256, 300}) == 0 and len({r, g, b}) == 3 and 127 in (r, g, b):
                pass
            big = [x for x in (r, g, b) if x >= 1000]
            if big and (len(big) > 1 or any(x not in (0, 255) for x in (r, g, b) if x < 1000)):
                continue          # four-digit values: one component at a time, next to the edge values
            cases.append({'kind': 'rgb3', 'pfx': pfx, 'r': r, 'g': g, 'b': b})
        for v in (0, 1, 255, 256, 0x010203, 0xFF00FF, 0xFFFFFF, 0x00FF00, 0x800000):
            cases.append({'kind': 'rgb1', 'pfx': pfx, 'v': v})
        for n in (0, 1, 16, 127, 214, 255, 256, 300):
            cases.append({'kind': 'c256', 'pfx': pfx, 'n': n})
        for r, g, b in itertools.product((-5, 0, 255, 256, 10 ** 6), repeat=3):
            cases.append({'kind': 'helper', 'pfx': pfx, 'r': r, 'g': g, 'b': b})
    elif k == 'mix':
        first = task['first']
        nb = len(base_forms())
        for j in range(nb):
            cases.append({'kind': 'mix', 'idx': [first, j]})
        rng = range(nb) if tier != 'quick' else (0, 2, 6, 9, 10, 11, 12)
        for j in range(nb):
            for l in rng:
                cases.append({'kind': 'mix', 'idx': [first, j, l]})
    elif k == 'reject':
        cases = [{'kind': 'reject', 'i': i, 'label': r[0]} for i, r in enumerate(rejections())]
        cases += [{'kind': 'reject_after', 'i': i, 'label': repr(a)} for i, a in enumerate(AFTER)]
    for case in cases:
        acc.current = case
        bad, n = do_case(case)
        run_case(acc, case, bad, n)
        acc.nontrivial_count += 1
        acc.outcome(case['kind'] + str(case.get('name', case.get('idx', case.get('i', case.get('code', case.get('pfx')))))))
        acc.sample(case)


def replay(case):
    return do_case(case)[0]


def describe(tier, seed):
    return {
        'rule': 'equivalence classes: every AnsiFormat member name (%d) x 12 spellings x 6 wrappers x {constructor, '
                'apply_formatting, AnsiStr} (+ format spec); every code 0..255 x 9 spellings; rgb strings: 5 prefixes x 6^3 component '
                'triples x number formats x brackets/spaces (+ single 24-bit values, color256/colour256, helper clamping); mixtures: '
                'all ordered pairs and triples of 12 base forms combined as separate arguments / one list / nested lists with int '
                'runs split across boundaries / one ;-string; %d rejections x 3 entry points. One state per class; transitions = '
                'constructions.' % (len(AnsiFormat.__members__), len(rejections())),
        'bounds': {'names': len(AnsiFormat.__members__)},
    }


def vacuity(tot, tier):
    if tot['state_count'] < 2000:
        return 'too few equivalence classes'
    return None
