"""C16 - format_matching / unformat_matching equal a fold of apply/remove_formatting over re matches.

Engine A: values = texts x layouts (plain, every one-span layout, rainbow, and their depth-1 images);
probes = patterns (plain with metacharacters, regex with empty/adjacent matches) x match_case x count x
settings.  Oracle: the statement's loop executed on a second copy through the public API.
"""
import itertools
import re
from .. import env
from ..env import AnsiString, AnsiStr
from .. import model, explore
from ..hist import build, mk_settings

ID = 'C16'
TEXTS = ['abAb', 'aab', 'a.b', '(a)', 'aaa', '']
# the same spec texts are used both as plain text and as regular expressions (where they are valid patterns), in
# one process and in both orders, so that state kept between calls (a pattern cache, say) cannot hide behind
# disjoint inputs
PLAIN = ['a', 'ab', 'b', '.', 'a.', '(', 'A', '', 'b*', 'a|b', 'a?']
REGEX = ['a', 'a|b', 'b*', '(?=a)', '[ab]+', 'a?', 'A', '(a)(b)?', '.', 'a.', '']
COUNTS = [-1, -2, 0, 1, 2, 10]
# characters whose lower/upper/casefold forms differ in length or that only compare equal under re.IGNORECASE's rules
TEXTS_U = ['\u0130ab', 'a\u0130bi', '\u017fsS', '\u03c3\u03c2\u03a3', '\xb5\u03bcM', 'i\u0130I\u0131']
PATS_U = ['i', 'I', '\u0130', 's', '\u017f', '\u03c3', '\u03c2', 'b', 'ab', '\xb5', 'bi', '\u0131']


def tasks(tier, seed):
    out = []
    for ti in range(len(TEXTS)):
        for part in range(4):
            out.append({'text': ti, 'part': part})
    for ti in range(len(TEXTS_U)):
        out.append({'text': 'u%d' % ti, 'part': 0})
    return out


def layouts(text, seed, tier):
    R = explore.roles(seed)
    L = len(text)
    hs = [[['plain', text]]]
    if L:
        hs.append([['rainbow', text]])
        for (s, e) in explore.ranges(L):
            hs.append([['plain', text], ['apply', R['R'], s, e, True]])
        for (s, e) in explore.ranges(L):
            hs.append([['rainbow', text], ['apply', R['W'], s, e, True]])
            if tier != 'quick':
                hs.append([['plain', text], ['apply', R['R'], 0, L, True], ['apply', R['B'], s, e, True]])
                hs.append([['plain', text], ['apply', R['R'], s, e, True], ['apply', R['R'], 0, L, True]])
    if L >= 3:
        hs.append([['plain', text], ['apply', R['R'], 0, L - 2, True], ['apply', R['W'], 0, L - 1, True], ['apply', R['U'], 0, L - 2, True]])
        hs.append([['plain', text], ['apply', R['R'], 0, L, True], ['apply', R['B'], 1, L, True], ['apply', R['R'], 2, L, True]])
    return hs


def fmt_menu(seed):
    R = explore.roles(seed)
    # the last entry: three bare integers as separate arguments (one extended-colour setting, as in apply_formatting)
    return [[[R['G']]], [[R['R'], R['W']]], [[R['R']], [R['W']]], ['int:48', 'int:5', 'int:214']]


def unfmt_menu(seed):
    R = explore.roles(seed)
    return [[[R['R']]], [[R['R'], R['W']]], [[R['R']], [R['W']]], [], [None], [[R['G']]], [[R['R']], None]]


def fold(v, which, pat, fmts, regex, match_case, count):
    """The statement's loop, through the public API."""
    text = v.base_str
    p = pat if regex else re.escape(pat)
    flags = 0 if match_case else re.IGNORECASE
    ms = list(re.finditer(p, text, flags))
    if count >= 0:
        ms = ms[:count]
    if which == 'fmt':
        S = []
        for f in fmts:
            S.extend([f] if isinstance(f, str) else f)
        for m in ms:
            v.apply_formatting(mk_settings(S), m.start(), m.end())
    else:
        if not fmts or any(f is None for f in fmts):
            S = None
        else:
            S = []
            for f in fmts:
                S.extend(f)
        for m in ms:
            v.remove_formatting(mk_settings(S) if S is not None else None, m.start(), m.end())
    return len(ms)


def future_diff(v, w):
    """One-step futures of two values with equal cells: apply / remove over every range, and closedness of every
    slice.  Returns None or (operation, cells of v', cells of w')."""
    from ..env import AnsiSetting
    L = len(v)
    for (s_, e_) in explore.ranges(L):
        for top in (True, False):
            a, b = v.copy(), w.copy()
            a.apply_formatting(AnsiSetting('35'), s_, e_, top)
            b.apply_formatting(AnsiSetting('35'), s_, e_, top)
            ca, cb = model.alpha_codes(a)[1], model.alpha_codes(b)[1]
            if not model.cells_equiv(ca, cb):
                return ('apply_formatting(35, %d, %d, topmost=%r)' % (s_, e_, top), ca, cb)
        a, b = v.copy(), w.copy()
        a.remove_formatting(None, s_, e_)
        b.remove_formatting(None, s_, e_)
        ca, cb = model.alpha_codes(a)[1], model.alpha_codes(b)[1]
        if not model.cells_equiv(ca, cb):
            return ('remove_formatting(None, %d, %d)' % (s_, e_), ca, cb)
        ea, eb = model.closed_check(v[s_:e_]), model.closed_check(w[s_:e_])
        if ea != eb:
            return ('slicing [%d:%d] and appending' % (s_, e_), ea, eb)
    return None


def check_probe(h, which, pat, fmts, regex, match_case, count):
    bad = []
    v = build(h)
    w = build(h)
    args = [None if f is None else (int(f[4:]) if isinstance(f, str) else mk_settings(f)) for f in fmts]
    what = '%s(%r, %r, regex=%r, match_case=%r, count=%r)' % ('format_matching' if which == 'fmt' else 'unformat_matching',
                                                              pat, fmts, regex, match_case, count)
    try:
        n = fold(w, which, pat, fmts, regex, match_case, count)
    except Exception as e:  # noqa
        return [], 0   # the fold itself is not applicable (C06/C07 look at apply/remove)
    try:
        if which == 'fmt':
            r = v.format_matching(pat, *args, regex=regex, match_case=match_case, count=count)
        else:
            r = v.unformat_matching(pat, *args, regex=regex, match_case=match_case, count=count)
    except Exception as e:  # noqa
        return [('match-raises', '%s raised %s: %s' % (what, type(e).__name__, e))], n
    if v.base_str != w.base_str:
        bad.append(('match-text', '%s changed the text' % what))
    if model.canon(v) != model.canon(w):
        tv, cv = model.alpha_codes(v)
        tw, cw = model.alpha_codes(w)
        if not model.cells_equiv(cv, cw):
            bad.append(('match-cells', '%s: %s (method) vs loop of apply/remove: %s' % (what, cv, model.first_diff(cv, cw))))
        elif not (v == w) or model.renderings(v) != model.renderings(w):
            bad.append(('match-state', '%s: same cells but a different state than the loop (== %r)' % (what, v == w)))
        else:
            # same cells, ==, renderings - but a different object graph (e.g. setting objects shared between matches).
            # "The same state" includes the future: every one-step continuation must agree as well.
            fut = future_diff(v, w)
            if fut:
                bad.append(('match-state-future', '%s: equal now, but after %s the method result has %s and the loop result %s'
                            % ((what,) + fut)))
    # AnsiStr twin
    try:
        vs = AnsiStr(build(h))
        if which == 'fmt':
            rs = vs.format_matching(pat, *args, regex=regex, match_case=match_case, count=count)
        else:
            rs = vs.unformat_matching(pat, *args, regex=regex, match_case=match_case, count=count)
        if type(rs) is not AnsiStr or model.alpha_codes(rs) != model.alpha_codes(w):
            bad.append(('match-ansistr', '%s on AnsiStr differs from the loop' % what))
    except Exception as e:  # noqa
        bad.append(('match-raises', '%s on AnsiStr raised %s: %s' % (what, type(e).__name__, e)))
    return bad, n


def check_two_calls(h, pat, regex, c1, c2, seed):
    """Two matching calls on the same object (same pattern, different counts / methods): each must equal its own fold,
    whatever the first call may have left behind."""
    R = explore.roles(seed)
    v, w = build(h), build(h)
    f1, f2 = [[R['G']]], [[R['B']]]
    what = 'format_matching(%r, count=%r) then format_matching(%r, count=%r) [regex=%r]' % (pat, c1, pat, c2, regex)
    try:
        fold(w, 'fmt', pat, f1, regex, False, c1)
        fold(w, 'fmt', pat, f2, regex, False, c2)
        fold(w, 'unfmt', pat, f1, regex, False, -1)
    except Exception:  # noqa
        return []
    try:
        v.format_matching(pat, *[mk_settings(f) for f in f1], regex=regex, count=c1)
        v.format_matching(pat, *[mk_settings(f) for f in f2], regex=regex, count=c2)
        v.unformat_matching(pat, *[mk_settings(f) for f in f1], regex=regex, count=-1)
    except Exception as e:  # noqa
        return [('match-raises', '%s raised %s: %s' % (what, type(e).__name__, e))]
    cv, cw = model.alpha_codes(v)[1], model.alpha_codes(w)[1]
    if not model.cells_equiv(cv, cw):
        return [('match-cells', '%s, then unformat_matching of the first format: %s (methods) vs loops of apply/remove: %s'
                 % (what, cv, model.first_diff(cv, cw)))]
    return []


def run_unicode(task, acc):
    text = TEXTS_U[int(task['text'][1:])]
    L = len(text)
    R = explore.roles(acc.seed)
    hs = [[['plain', text]], [['rainbow', text]], [['plain', text], ['apply', R['R'], 0, L, True]],
          [['rainbow', text], ['apply', R['W'], 1, L, True]]]
    for h in hs:
        acc.state(model.canon_hash(build(h)))
        acc.evaluations += 1
        for which, fmts in (('fmt', [[R['G']]]), ('unfmt', []), ('unfmt', [[R['R']]])):
            for regex in (False, True):
                for pat in PATS_U:
                    for mc_ in (False, True):
                        for count in (-1, 1):
                            case = {'hist': h, 'which': which, 'pat': pat, 'fmts': fmts, 'regex': regex, 'mc': mc_, 'count': count}
                            acc.current = case
                            acc.transitions += 1
                            bad, n = check_probe(h, which, pat, fmts, regex, mc_, count)
                            if not bad:
                                acc.validated += 1
                            for clause, detail in bad:
                                acc.violation(clause, case, detail, sig=clause + ':' + which + ':unicode')
                            if n:
                                acc.nontriv(hash((task['text'], repr(h), which, pat, regex, mc_, count)))


def run_task(task, acc):
    tier = env.tier()
    if isinstance(task['text'], str):
        return run_unicode(task, acc)
    text = TEXTS[task['text']]
    hs = layouts(text, acc.seed, tier)
    for hi, h in enumerate(hs):
        if hi % 4 != task['part']:
            continue
        v = build(h)
        acc.state(model.canon_hash(v))
        acc.evaluations += 1
        for which, menu in (('fmt', fmt_menu(acc.seed)), ('unfmt', unfmt_menu(acc.seed))):
            for regex, pats in (((False, PLAIN), (True, REGEX)) if hi % 2 == 0 else ((True, REGEX), (False, PLAIN))):
                for pat in pats:
                    for mc_ in (True, False):
                        for count in COUNTS:
                            for fmts in menu:
                                case = {'hist': h, 'which': which, 'pat': pat, 'fmts': fmts, 'regex': regex, 'mc': mc_, 'count': count}
                                acc.current = case
                                acc.transitions += 1
                                bad, n = check_probe(h, which, pat, fmts, regex, mc_, count)
                                if not bad:
                                    acc.validated += 1
                                for clause, detail in bad:
                                    acc.violation(clause, case, detail, sig=clause + ':' + which)
                                if n:
                                    acc.nontriv(hash((hi, task['text'], which, pat, regex, mc_, min(count, 5), repr(fmts))))
                                acc.outcome((which, n))
        # sequences of calls on one object
        for regex, pats in ((False, PLAIN[:5]), (True, REGEX[:5])):
            for pat in pats:
                for (c1, c2) in ((1, -1), (0, -1), (2, -1), (1, 2), (-1, 1)):
                    case = {'hist': h, 'which': 'two', 'pat': pat, 'regex': regex, 'c1': c1, 'c2': c2}
                    acc.current = case
                    acc.transitions += 1
                    bad = check_two_calls(h, pat, regex, c1, c2, acc.seed)
                    if not bad:
                        acc.validated += 1
                    for clause, detail in bad:
                        acc.violation(clause, case, detail, sig=clause + ':two')
        acc.sample({'hist': h, 'which': 'fmt', 'pat': 'a', 'fmts': [['32']], 'regex': False, 'mc': False, 'count': -1})


def replay(case):
    if case.get('which') == 'two':
        return check_two_calls(case['hist'], case['pat'], case['regex'], case['c1'], case['c2'], 0)
    return check_probe(case['hist'], case['which'], case['pat'], case['fmts'], case['regex'], case['mc'], case['count'])[0]


def describe(tier, seed):
    return {
        'rule': 'values: texts %r x layouts (plain, rainbow, every one-span layout, rainbow + one span; two-span layouts in '
                'thorough); probes: plain patterns %r and regex patterns %r x match_case x count %r x settings menus (format: %d, '
                'unformat: %d incl. no format / None / absent role). Oracle: islice(re.finditer) fold of apply/remove on a copy; '
                'compared by canonical state, cells, == and all renderings. Non-trivial = at least one match.'
                % (TEXTS, PLAIN, REGEX, COUNTS, len(fmt_menu(seed)), len(unfmt_menu(seed))),
        'bounds': {'texts': TEXTS},
    }


def vacuity(tot, tier):
    if len(tot['nontrivial']) < 5000:
        return 'too few probes with matches'
    return None
