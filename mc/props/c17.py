"""C17 - settings queries are mutually consistent.

Engine A state probes: in every pool state, ansi_settings_at / settings_at for every index in [-L-2..L+2] and
find_settings for every selection x every (start, end) in ([-L-1..L+1]+None)^2 x both directions, against a
per-character table built from ansi_settings_at.
"""
from .. import env
from ..env import AnsiString, AnsiStr
from .. import model, explore
from ..hist import build, mk_settings
from ..mops import norm_range

ID = 'C17'


def plan(tier):
    if tier == 'quick':
        return [(3, ('rs1s', 'rs2s', 'rs1c', 'rs2c'), 'RB', 0, False), (3, ('tri', 'trix', 'triw'), 'R', 0, False), (1, ('plain',), 'RBW', 2, False), (2, ('plain', 'rainbow'), 'RBW', 2, True), (3, ('plain',), 'RBW', 2, False), (2, ('plain',), 'oq', 2, False),
                (4, ('plain',), 'RW', 2, False), (3, ('parsed',), 'RW', 1, False), (3, ('long',), 'RW', 2, False), (2, ('plain',), 'WN', 3, False), (2, ('plain',), 'RB', 3, False), (3, ('dup1', 'dup2'), 'RW', 1, False), (4, ('rs1', 'rs2'), 'RBW', 1, False), (2, ('wide', 'wide2'), 'RW', 1, False)]
    return [(4, ('rs1s', 'rs2s', 'rs1c', 'rs2c'), 'RBW', 1, False), (4, ('tri', 'trix', 'triw'), 'R', 0, False), (1, ('plain',), 'RBWX', 3, False), (2, ('plain', 'rainbow'), 'RBWX', 2, True), (3, ('plain', 'rainbow'), 'RBW', 2, True), (3, ('plain',), 'oqW', 2, False),
            (3, ('plain',), 'RB', 3, False), (4, ('plain', 'rainbow'), 'RBW', 2, False), (5, ('plain',), 'RW', 2, False), (3, ('long',), 'RBW', 2, False), (3, ('dup1', 'dup2'), 'RW', 1, False), (4, ('rs1', 'rs2'), 'RBW', 2, False), (2, ('wide', 'wide2'), 'RW', 2, False), (3, ('wide',), 'RW', 1, False)]


def tasks(tier, seed):
    return explore.std_tasks(explore.plan_override(ID, plan(tier)))


def menu(seed):
    R = explore.roles(seed)
    return [[R['R']], [R['B']], [R['W']], [R['G']], [R['R'], R['B']], [R['R'], R['W']], [R['B'], R['W']], [R['R'], R['R']], [], ['raw:;'], [R['K']], [R['F']]]


def check_find(v, T, L, S, i, j, rev, res):
    """res = find_settings result.  Returns None or (clause, text)."""
    if not (isinstance(res, tuple) and len(res) == 2):
        return ('find-shape', 'returned %r' % (res,))
    fs, fe = res
    s, e = norm_range(i, j, L)
    si = 0 if i is None else (max(0, L + i) if i < 0 else min(i, L))
    ei = L if j is None else (max(0, L + j) if j < 0 else min(j, L))
    s, e = si, ei
    if e < s:
        return None if res == (None, None) else ('find-inverted', 'inverted range must give (None, None)')
    from ..hist import expand_codes as _ec
    if not _ec(S):
        return None if res == (s, e) else ('find-empty-settings', 'empty settings must give the normalised range (%d, %d)' % (s, e))
    from ..hist import expand_codes
    need = set(expand_codes(S))

    def has(p):
        return 0 <= p < L and need <= T[p]
    closed = [p for p in range(s, e + 1) if has(p)]
    half = [p for p in range(s, e) if has(p)]
    if not closed:
        return None if res == (None, None) else ('find-none', 'no position in range has all of %r' % (S,))
    if fs is None:
        if half:
            return ('find-missed', 'position %d has all of %r' % (half[0], S))
        return None if fe is None else ('find-shape', 'found_start None but found_end %r' % (fe,))
    if not isinstance(fs, int) or not (s <= fs <= e) or not has(fs):
        return ('find-start-wrong', 'found_start %r does not have all of %r / not in range [%d,%d]' % (fs, S, s, e))
    if rev:
        return None
    if half and fs != half[0]:
        return ('find-start-not-first', 'found_start %r but the first position with all of %r is %d' % (fs, S, half[0]))
    if fe is None:
        lacking = [p for p in range(fs, e) if not has(p)]
        if lacking:
            return ('find-end-missed', 'found_end None but position %d (< range end %d) lacks one of %r' % (lacking[0], e, S))
        return None
    if not isinstance(fe, int) or not (fs < fe <= e):
        return ('find-end-range', 'found_end %r not in (%d, %d]' % (fe, fs, e))
    if has(fe):
        return ('find-end-has-all', 'found_end %d still has all of %r' % (fe, S))
    for p in range(fs + 1, fe):
        if not has(p):
            return ('find-end-not-first', 'position %d before found_end %d already lacks one of %r' % (p, fe, S))
    return None


def check_state(h, v, acc):
    bad = []
    text, cells = model.alpha_codes(v)
    L = len(text)
    T = [set(c) for c in cells]
    vs = AnsiStr(v)
    for k in [x for x in explore.probe_bounds(L, 2, 2) if x is not None]:
        acc.transitions += 2
        try:
            a = [str(x) for x in v.ansi_settings_at(k)]
            sa = v.settings_at(k)
            if not (0 <= k < L) and a:
                bad.append(('at-out-of-range', {'hist': h, 'op': ['at', k]}, 'ansi_settings_at(%d) = %r on length %d' % (k, a, L)))
            elif sa != ';'.join(a):
                bad.append(('settings-at-join', {'hist': h, 'op': ['at', k]}, 'settings_at(%d) = %r, ansi_settings_at gives %r' % (k, sa, a)))
            elif [str(x) for x in vs.ansi_settings_at(k)] != a or vs.settings_at(k) != sa:
                bad.append(('at-ansistr', {'hist': h, 'op': ['at', k]}, 'AnsiStr twin differs at %d' % k))
            else:
                acc.validated += 2
        except Exception as e:  # noqa
            bad.append(('at-raises', {'hist': h, 'op': ['at', k]}, 'index %d raised %s: %s' % (k, type(e).__name__, e)))
    bounds = explore.probe_bounds(L, 1, 1)
    for S in menu(acc.seed):
        arg = mk_settings(S)
        for rev in (False, True):
            for i in bounds:
                for j in bounds:
                    acc.transitions += 1
                    case = {'hist': h, 'op': ['find', S, i, j, rev]}
                    try:
                        if i is None:
                            res = v.find_settings(arg, end=j, reverse=rev) if j is not None else v.find_settings(arg, reverse=rev)
                        else:
                            res = v.find_settings(arg, i, j, rev)
                    except Exception as e:  # noqa
                        bad.append(('find-raises', case, 'find_settings(%r,%r,%r,%r) raised %s: %s' % (S, i, j, rev, type(e).__name__, e)))
                        continue
                    err = check_find(v, T, L, S, i, j, rev, res)
                    if err:
                        bad.append((err[0], case, 'find_settings(%r,%r,%r,reverse=%r) = %r on cells %r: %s'
                                    % (S, i, j, rev, res, cells, err[1])))
                    else:
                        acc.validated += 1
                        acc.outcome((res, rev))
                        if res != (None, None) and S:
                            acc.nontriv(hash((model.chash(tuple(cells)), tuple(S), i, j, rev)))
    # AnsiStr delegates: the whole bounds grid for two selections (a forwarding slip shows only for particular bounds)
    for S in (menu(acc.seed)[0], []):
        arg = mk_settings(S)
        for rev in (False, True):
            for i in bounds:
                for j in bounds:
                    acc.transitions += 1
                    case = {'hist': h, 'op': ['find_str_grid', S, i, j, rev]}
                    try:
                        if i is None:
                            a = v.find_settings(arg, end=j, reverse=rev) if j is not None else v.find_settings(arg, reverse=rev)
                            b = vs.find_settings(arg, end=j, reverse=rev) if j is not None else vs.find_settings(arg, reverse=rev)
                        else:
                            a, b = v.find_settings(arg, i, j, rev), vs.find_settings(arg, i, j, rev)
                        if a != b:
                            bad.append(('find-ansistr', case, 'AnsiStr.find_settings(%r,%r,%r,%r) = %r, AnsiString gives %r' % (S, i, j, rev, b, a)))
                        else:
                            acc.validated += 1
                    except Exception as ex:  # noqa
                        bad.append(('find-ansistr', case, 'find_settings(%r,%r,%r,%r): %s: %s' % (S, i, j, rev, type(ex).__name__, ex)))
    for S in menu(acc.seed)[:3]:
        acc.transitions += 1
        if vs.find_settings(mk_settings(S), 0, None) != v.find_settings(mk_settings(S), 0, None):
            bad.append(('find-ansistr', {'hist': h, 'op': ['find_str', S]}, 'AnsiStr.find_settings differs'))
        else:
            acc.validated += 1
    # a receiver that has been searched, is then edited in place, and is searched again: the answers are judged against the
    # cells of a twin that was edited without having been asked anything before
    from ..hist import apply_op
    for edit in (['ljust', L + 2, '*', True, True], ['center', L + 3, '*', True, True], ['rjust', L + 1, '*', True, False],
                 ['assign', text + 'Q'], ['icat', ['lit', 'z']], ['clip', 1, None, True]):
        case = {'hist': h, 'op': ['find_after', edit]}
        acc.transitions += 1
        try:
            w0 = apply_op(build(h), edit)
            text0, cells0 = model.alpha_codes(w0)
            w = build(h)
            for S in menu(acc.seed)[:3]:
                w.find_settings(mk_settings(S))
                w.find_settings(mk_settings(S), reverse=True)
            if L:
                w.settings_at(0)
                w.ansi_settings_at(L - 1)
            w = apply_op(w, edit)
        except Exception as ex:  # noqa
            continue            # (what the edit itself may raise is C09's and the edit's own property's business)
        T0 = [set(c) for c in cells0]
        ok = True
        for S in menu(acc.seed)[:3]:
            for rev in (False, True):
                for (i, j) in ((None, None), (1, None), (0, len(text0))):
                    try:
                        res = w.find_settings(mk_settings(S), reverse=rev) if i is None else w.find_settings(mk_settings(S), i, j, rev)
                    except Exception as e:  # noqa
                        bad.append(('find-raises', case, 'after %r: find_settings(%r,%r,%r,%r) raised %s: %s' % (edit, S, i, j, rev, type(e).__name__, e)))
                        ok = False
                        continue
                    err = check_find(w, T0, len(text0), S, i, j, rev, res)
                    if err:
                        bad.append((err[0], case, 'searched, then %r, then find_settings(%r,%r,%r,reverse=%r) = %r on cells %r: %s'
                                    % (edit, S, i, j, rev, res, cells0, err[1])))
                        ok = False
        if ok:
            acc.validated += 1
    return bad


def run_task(task, acc):
    pool = explore.std_pool(task, acc.seed, acc)
    for h, v in pool.items:
        acc.current = {'hist': h}
        acc.state(model.canon_hash(v))
        acc.evaluations += 1
        explore.shape_counters(acc, model.alpha_codes(v)[1])
        for clause, case, detail in check_state(h, v, acc):
            acc.violation(clause, case, detail, sig=clause + (':rev' if case['op'][-1] is True else ''))
        acc.sample({'hist': h, 'op': ['find', ['31'], 0, None, False]})


def replay(case):
    from ..runner import Acc
    v = build(case['hist'])
    return [(cl, d) for cl, c, d in check_state(case['hist'], v, Acc(0)) if c['op'] == case['op']]


def describe(tier, seed):
    return {
        'rule': 'states: BFS pools (plan in bounds). Per state: ansi_settings_at/settings_at for every index in [-L-2..L+2]; '
                'find_settings for every selection in %r x (start, end) in ([-L-1..L+1]+None)^2 x reverse in {False, True}. A '
                'probe is non-trivial when it finds a range; a match only at the closing bound is accepted either way.' % (menu(seed),),
        'bounds': {'plan(L, layouts, roles, depth, structural)': [list(map(str, p)) for p in plan(tier)]},
    }


def vacuity(tot, tier):
    if len(tot['nontrivial']) < 1000:
        return 'too few successful finds'
    return None
