"""C10 - str-like methods agree with Python's str on the base text.

Engine B, differential against str itself: every text up to length N over per-family alphabets, wrapped as
AnsiString / AnsiStr (unformatted and rainbow+span), x every argument tuple of the family.
"""
import itertools
from .. import env
from ..env import AnsiString, AnsiStr, AnsiSetting
from .. import watchdog
from ..hist import rainbow_code

ID = 'C10'
PRED = ['isalnum', 'isalpha', 'isascii', 'isdecimal', 'isdigit', 'isidentifier', 'islower', 'isnumeric', 'isprintable',
        'isspace', 'istitle', 'isupper']
CASE = ['capitalize', 'casefold', 'lower', 'upper', 'swapcase', 'title']
ASSUMPTIONS = ['the str oracle is the str type of the interpreter the suite runs on (/venv/bin/python 3.12)',
               'documented deviations built into the oracle: center = format(t, fill^width); rpartition absent -> (t,"",""); '
               'empty separator excluded; expandtabs(n) = replace(tab, n spaces); zfill = rjust with 0; default strip set " \\t\\n\\r\\v\\f"']


# every character str.splitlines treats as a line boundary, and their nearest non-boundary neighbours
# base texts that contain SGR sequences as characters (taken verbatim by assign_str); tokens, not characters
ESC_TOKS = ['\x1b[1m', 'a', ' ', '\n', '-', '\x1b[m']
LINES = ['\n', '\r', '\x0b', '\x0c', '\x1c', '\x1d', '\x1e', '\x85', '\u2028', '\u2029',
         '\x1f', '\x1a', '\x84', '\x86', '\u2027', '\u202a', 'a']


def bounds(tier):
    q = tier == 'quick'
    return {'search_len': 4 if q else 5, 'pat_len': 2, 'ws_len': 3 if q else 4, 'case_len': 3 if q else 4, 'pad_len': 3}


def wrap(text, how):
    if how in ('e', 'E'):
        # the text is taken verbatim (assign_str), so it may contain escape sequences: characters like any other
        v = AnsiString('x' * len(text))
        v.assign_str(text)
        if how == 'E' and text:
            v.apply_formatting(AnsiSetting('1'), 0, 1)
        return v
    if how in ('S', 's'):
        v = AnsiString(text)
    else:
        v = AnsiString(text)
    if how == 'u' and len(text) >= 2:
        v.apply_formatting(AnsiSetting('1'), 1, len(text))        # formatting that starts behind an unformatted head
    if how in ('S', 'T') and text:
        for i in range(len(text)):
            v.apply_formatting(AnsiSetting(rainbow_code(i)), i, i + 1)
        v.apply_formatting(AnsiSetting('1'), 0, max(1, len(text) - 1))
    if how in ('T', 't'):
        return AnsiStr(v)
    return v


def texts_of(res):
    """Normalise a result to comparable plain data (scalars stay; values -> base_str)."""
    if isinstance(res, (AnsiString, AnsiStr)):
        return res.base_str
    if isinstance(res, (list, tuple)):
        return [texts_of(x) for x in res]
    return res


def type_ok(res, how):
    want = AnsiStr if how in ('T', 't') else AnsiString
    if isinstance(res, (list, tuple)):
        return all(type(x) is want for x in res)
    if isinstance(res, (bool, int)):
        return True
    return type(res) is want


def needle(a):
    """['S', text] / ['T', text]: a styled AnsiString / AnsiStr needle for `in` (judged by its base text)."""
    if isinstance(a, (list, tuple)):
        v = AnsiString(a[1], AnsiSetting('31'))
        return AnsiStr(v) if a[0] == 'T' else v
    return a


def call(obj, meth, args):
    if meth == 'in':
        return needle(args[0]) in obj
    if meth == 'len':
        return len(obj)
    return getattr(obj, meth)(*args)


def oracle(t, meth, args):
    """What the statement demands: ('val', value) or ('exc', type)."""
    try:
        if meth == 'in':
            a = args[0]
            return 'val', (a[1] if isinstance(a, (list, tuple)) else a) in t
        if meth == 'len':
            return 'val', len(t)
        if meth == 'center':
            w, fill = args
            return 'val', format(t, '%s^%d' % (fill, w))
        if meth == 'rpartition':
            r = t.rpartition(args[0])
            if args[0] not in t:
                r = (t, '', '')
            return 'val', list(r)
        if meth == 'partition':
            return 'val', list(t.partition(args[0]))
        if meth == 'expandtabs':
            return 'val', t.replace('\t', ' ' * args[0])
        if meth == 'zfill':
            return 'val', t.rjust(args[0], '0')
        if meth in ('strip', 'lstrip', 'rstrip') and (not args or args[0] is None):
            return 'val', getattr(t, meth)(' \t\n\r\v\f')
        r = getattr(t, meth)(*args)
        return 'val', (list(r) if isinstance(r, (list, tuple)) else r)
    except Exception as e:  # noqa
        return 'exc', type(e)


_hung = set()


def check_call(text, how, meth, args, force=False):
    kind, want = oracle(text, meth, args)
    hkey = (meth, bool(args) and args[0] == '')
    if hkey in _hung and not force:
        return []      # one witness per hanging call class is enough; do not burn the budget on the others
    obj = wrap(text, how)
    what = '%s(%r).%s%r' % ('AnsiStr' if how in 'Tt' else 'AnsiString', text, meth, tuple(args))
    try:
        res = watchdog.guarded(call, obj, meth, args)
    except watchdog.Hang as h:
        _hung.add(hkey)
        return [('hang', '%s does not terminate (%s)' % (what, h))]
    except Exception as e:  # noqa
        if kind == 'exc' and type(e) is want:
            return []
        if kind == 'exc':
            return [('wrong-exception', '%s raised %s, str raises %s' % (what, type(e).__name__, want.__name__))]
        return [('raises', '%s raised %s: %s; str gives %r' % (what, type(e).__name__, e, want))]
    if kind == 'exc':
        return [('no-exception', '%s returned %r, str raises %s' % (what, texts_of(res), want.__name__))]
    got = texts_of(res)
    if isinstance(got, tuple):
        got = list(got)
    if got != want or type(got) is not type(want):
        return [('differs', '%s = %r, str gives %r' % (what, got, want))]
    if not type_ok(res, how):
        return [('result-type', '%s returned %s' % (what, type(res).__name__))]
    # the caller goes on working with what it got: a mutable result that is edited in place afterwards must not show in
    # any later answer (an AnsiString result is a value of its own, as a str result is)
    for r in (res if isinstance(res, (list, tuple)) else [res]):
        if type(r) is AnsiString and r is not obj:
            try:
                r += '\u03a9'
            except Exception:  # noqa
                pass
    return []


def strings(alpha, n):
    for k in range(0, n + 1):
        for t in itertools.product(alpha, repeat=k):
            yield ''.join(t)


def tasks(tier, seed):
    b = bounds(tier)
    out = []
    S = ['a', 'b', '-']
    for t in strings(S, b['search_len']):
        if len(t) >= b['search_len'] - 1:
            out.append({'fam': 'search', 'text': t})
    out.append({'fam': 'search_short'})
    W = [' ', '\t', '\n', '\r', '\x0b', 'a', 'b', '\x1c', '\x85', '\u2028']      # incl. line boundaries only str.splitlines knows
    for a in W:
        out.append({'fam': 'ws', 'first': a})
    out.append({'fam': 'ws', 'first': None})
    for a in LINES:
        out.append({'fam': 'lines', 'first': a})
    for a in range(len(ESC_TOKS)):
        out.append({'fam': 'esc', 'first': a})
    C = ['a', 'A', '1', ' ', "'", '\xdf', 'ǆ', 'ǅ', 'İ', '\xb2', '١', '_', '\xbd', '\x07']     # + vulgar fraction (numeric, no digit), BEL (not printable)
    for a in C:
        out.append({'fam': 'case', 'first': a})
    out.append({'fam': 'case', 'first': None})
    out.append({'fam': 'pad'})
    return out


def search_cases(t, b):
    S = ['a', 'b', '-']
    L = len(t)
    pats = list(strings(S, b['pat_len']))
    bnds = list(range(-L - 1, L + 2)) + [None]
    for p in pats:
        yield 'in', (p,)
        yield 'in', (['S', p],)
        yield 'in', (['T', p],)
        for m in ('count', 'find', 'rfind', 'index', 'rindex', 'endswith'):
            yield m, (p,)
            for i in bnds:
                yield m, (p, i)
                for j in bnds:
                    yield m, (p, i, j)
        yield 'removeprefix', (p,)
        yield 'removesuffix', (p,)
        if p:
            for m in ('split', 'rsplit'):
                yield m, (p,)
                for k in (-1, -2, 0, 1, 2, L):
                    yield m, (p, k)
            yield 'partition', (p,)
            yield 'rpartition', (p,)
        for new in ('', 'z', 'ab', p):
            yield 'replace', (p, new)
            for k in (-1, -2, 0, 1, 2):
                yield 'replace', (p, new, k)
    yield 'len', ()
    yield 'endswith', (('a', 'b-'),)


def ws_cases(t):
    subsets = [None, '', ' ', 'a', '\t', ' a', ' \t', 'a\t', ' a\t']
    for m in ('strip', 'lstrip', 'rstrip'):
        yield m, ()
        for c in subsets:
            yield m, (c,)
    for m in ('split', 'rsplit'):
        yield m, ()
        for k in (-1, -3, 0, 1, 2):
            yield m, (None, k)
        yield m, (' ',)
        yield m, ('\n', 1)
    yield 'splitlines', ()
    yield 'splitlines', (True,)
    yield 'splitlines', (False,)
    for n in (0, 1, 4):
        yield 'expandtabs', (n,)
    yield 'isspace', ()


def case_cases(t):
    for m in CASE + PRED:
        yield m, ()


def run_text(t, hows, cases, acc):
    acc.state_count += 1
    acc.transitions += 1
    first = True
    for meth, args in cases:
        for how in hows:
            acc.evaluations += 1
            acc.current = {'text': t, 'how': how, 'meth': meth, 'args': list(args)}
            bad = check_call(t, how, meth, list(args))
            if not bad:
                acc.validated += 1
            for clause, detail in bad:
                acc.violation(clause, {'text': t, 'how': how, 'meth': meth, 'args': list(args)}, detail, sig=clause + ':' + meth)
        acc.outcome((meth, repr(oracle(t, meth, list(args)))[:40]))
    acc.nontrivial_count += 1 if t else 0
    acc.sample({'text': t, 'how': 'S', 'meth': 'len', 'args': []})


def run_task(task, acc):
    tier = env.tier()
    b = bounds(tier)
    fam = task['fam']
    if fam == 'search':
        t = task['text']
        run_text(t, ('S', 'T'), search_cases(t, b), acc)
        run_text(t, ('s', 't'), ((m, a) for m, a in search_cases(t, b) if m in ('replace', 'split', 'rsplit', 'partition',
                                                                                 'rpartition', 'removeprefix', 'removesuffix')), acc)
    elif fam == 'search_short':
        for t in strings(['a', 'b', '-'], b['search_len'] - 2):
            run_text(t, ('S', 'T', 's'), search_cases(t, b), acc)
    elif fam == 'ws':
        W = [' ', '\t', '\n', '\r', '\x0b', 'a', 'b', '\x1c', '\x85', '\u2028']      # incl. line boundaries only str.splitlines knows
        if task['first'] is None:
            ts = ['']
        else:
            ts = (task['first'] + s for s in strings(W, b['ws_len'] - 1))
        for t in ts:
            run_text(t, ('S', 'T', 's', 'u'), ws_cases(t), acc)
    elif fam == 'lines':
        for t in (task['first'] + u for u in strings(LINES, 2 if tier == 'quick' else 3)):
            run_text(t, ('S', 'T', 's'), [('splitlines', ()), ('splitlines', (True,)), ('splitlines', (False,)),
                                          ('split', ()), ('rsplit', ()), ('strip', ()), ('isspace', ())], acc)
    elif fam == 'esc':
        for toks in itertools.product(ESC_TOKS, repeat=3 if tier == 'quick' else 4):
            t = ESC_TOKS[task['first']] + ''.join(toks)
            if '\x1b' not in t:
                continue
            cases = [('split', ()), ('rsplit', ()), ('split', ('-',)), ('rsplit', ('-', 1)), ('splitlines', ()), ('splitlines', (True,)),
                     ('partition', ('-',)), ('rpartition', ('a',)), ('strip', ()), ('lstrip', ('a',)), ('rstrip', (' ',)),
                     ('removeprefix', ('a',)), ('removesuffix', ('a',)), ('replace', ('a', 'zz')), ('replace', (' ', '')),
                     ('upper', ()), ('title', ()), ('count', ('a',)), ('find', ('m',)), ('ljust', (len(t) + 2, '*')),
                     ('center', (len(t) + 3, '*')), ('zfill', (len(t) + 1,)), ('expandtabs', (2,)), ('len', ()), ('in', ('1m',))]
            run_text(t, ('e', 'E'), cases, acc)
    elif fam == 'case':
        C = ['a', 'A', '1', ' ', "'", '\xdf', 'ǆ', 'ǅ', 'İ', '\xb2', '١', '_', '\xbd', '\x07']     # + vulgar fraction (numeric, no digit), BEL (not printable)
        if task['first'] is None:
            ts = ['']
        else:
            ts = (task['first'] + s for s in strings(C, b['case_len'] - 1))
        for t in ts:
            run_text(t, ('S', 'T'), case_cases(t), acc)
    elif fam == 'pad':
        P = ['a', '-', '+', '1']
        for t in strings(P, b['pad_len']):
            L = len(t)
            cases = []
            for w in range(0, L + 5):
                for fill in (' ', '*', '0'):
                    for m in ('ljust', 'rjust', 'center'):
                        cases.append((m, (w, fill)))
                cases.append(('zfill', (w,)))
                for m in ('ljust', 'rjust', 'center'):
                    cases.append((m, (w,)))
            run_text(t, ('S', 'T', 's'), [(m, a) for m, a in cases if not (m == 'center' and len(a) == 1)]
                     + [('center', (w, ' ')) for w in range(0, L + 5)], acc)


def replay(case):
    return check_call(case['text'], case['how'], case['meth'], case['args'], force=True)


def describe(tier, seed):
    return {
        'rule': 'search/split family: texts over {a,b,-} up to search_len x all patterns up to pat_len (incl. empty where str '
                'accepts it) x start/end in [-L-1..L+1]+None x counts; whitespace family over {space,tab,LF,CR,VT,a,b}; case & '
                'predicate family over 12 representatives (ASCII, sharp s, dz digraphs, dotted I, superscript two, Arabic-Indic '
                'digit, apostrophe, underscore); padding family. Each text is wrapped as AnsiString/AnsiStr, rainbow-formatted '
                'and plain. One state per text; transitions = texts; evaluations = calls compared with str.',
        'bounds': bounds(tier),
    }


def vacuity(tot, tier):
    if tot['evaluations'] < 500000:
        return 'too few calls'
    return None
