"""C04 - slicing returns exactly the selected characters and styles, closed at the end.

Engine A: BFS over apply/remove/structural histories to depth D from plain and rainbow seeds; in every
reached state every slice (start, stop) in ([-L-2 .. L+2] + None)^2, every integer index, clip (both forms),
iteration and the AnsiStr twin are compared with Python's own slicing of the per-character model, and every
result is probed for closedness.
"""
from .. import env
from ..env import AnsiString, AnsiStr
from .. import model, explore
from ..hist import build
from ..mops import norm_range

ID = 'C04'


def plan(tier):
    """(L, layouts, role names, depth, structural)"""
    if tier == 'quick':
        return [(3, ('rs1s', 'rs2s', 'rs1c', 'rs2c'), 'RB', 0, False), (2, ('esc', 'esc2'), 'RW', 1, False), (3, ('tri', 'trix', 'triw'), 'R', 0, False), (1, ('plain',), 'RBW', 2, True), (2, ('plain', 'rainbow'), 'RBWX', 2, True), (2, ('plain',), 'oq', 2, True),
                (3, ('plain', 'rainbow'), 'RBW', 2, True), (4, ('plain',), 'RW', 2, False), (3, ('parsed',), 'RW', 1, True), (3, ('plain',), 'egm', 2, False), (3, ('long',), 'RW', 2, False), (2, ('plain',), 'WN', 3, False), (2, ('plain',), 'RB', 3, False), (3, ('dup1', 'dup2'), 'RW', 1, False), (4, ('rs1', 'rs2'), 'RBW', 1, False), (2, ('wide', 'wide2'), 'RW', 1, False)]
    return [(4, ('rs1s', 'rs2s', 'rs1c', 'rs2c'), 'RBW', 1, False), (2, ('esc', 'esc2'), 'RW', 2, False), (3, ('esc',), 'RW', 1, True), (4, ('tri', 'trix', 'triw'), 'R', 0, False), (3, ('tri', 'trix', 'triw'), 'RW', 1, False), (1, ('plain',), 'RBWX', 3, True), (2, ('plain', 'rainbow'), 'RBWX', 3, True), (3, ('plain',), 'oqW', 2, True),
            (3, ('plain', 'rainbow'), 'RBW', 3, False), (3, ('plain',), 'RBWXNT', 2, True),
            (4, ('plain', 'rainbow'), 'RBW', 2, True), (5, ('plain',), 'RW', 2, True), (6, ('plain', 'rainbow'), 'RW', 2, False), (3, ('plain',), 'egmB', 2, True), (4, ('plain',), 'eg', 2, False), (3, ('long',), 'RBW', 2, False), (3, ('dup1', 'dup2'), 'RW', 1, False), (4, ('rs1', 'rs2'), 'RBW', 2, False), (2, ('wide', 'wide2'), 'RW', 2, False), (3, ('wide',), 'RW', 1, False)]


def tasks(tier, seed):
    return explore.std_tasks(explore.plan_override(ID, plan(tier)))


def check_state(h, v, acc, record=True):
    """All probes of one state.  Returns list of (clause, case, detail)."""
    bad = []
    text, cells = model.alpha_codes(v)
    L = len(text)
    vs = AnsiStr(v)
    bounds = explore.probe_bounds(L, 2, 2)
    verified = {}

    def full_check(r, s, e, what, case):
        try:
            t2, c2 = model.alpha_codes(r)
        except Exception as ex:  # noqa
            bad.append(('slice-inconsistent', case, '%s: reading the result raised %s: %s' % (what, type(ex).__name__, ex)))
            return False
        if e < s:
            e = s
        if t2 != text[s:e]:
            bad.append(('slice-text', case, '%s has text %r, expected %r' % (what, t2, text[s:e])))
            return False
        if not model.cells_equiv(c2, cells[s:e]):
            bad.append(('slice-cells', case, '%s: %s' % (what, model.first_diff(c2, cells[s:e]))))
            return False
        err = model.closed_check(r)
        if err:
            bad.append(('slice-not-closed', case, '%s: %s' % (what, err)))
            return False
        err = model.self_check(r)
        if err:
            bad.append(('slice-inconsistent', case, '%s: %s' % (what, err)))
            return False
        return True

    ch0 = model.canon_hash(v)
    for i in bounds:
        for j in bounds:
            s, e = norm_range(i, j, L)
            if model.canon_hash(v) != ch0:
                # a probe changed its source: that is C08's finding, not C04's; continue on a pristine value
                acc.counters['source_mutated_by_probe'] += 1
                v = build(h)
                vs = AnsiStr(v)
            for form in ('slice', 'clip', 'str', 'clipi', 'strclip'):
                acc.transitions += 1
                case = {'hist': h, 'op': [form, i, j]}
                try:
                    if form == 'slice':
                        r = v[i:j]
                    elif form == 'clip':
                        r = v.clip(i, j)
                    elif form == 'clipi':
                        w = build(h)
                        r = w.clip(i, j, inplace=True)
                        if r is not w:
                            bad.append(('clip-inplace-identity', case, 'clip(inplace=True) did not return the receiver'))
                            continue
                    elif form == 'strclip':
                        r = vs.clip(i, j)
                        if type(r) is not AnsiStr:
                            bad.append(('slice-type', case, 'AnsiStr.clip returned %s' % type(r).__name__))
                            continue
                        r = model.content(r)
                    else:
                        r = vs[i:j]
                        if type(r) is not AnsiStr:
                            bad.append(('slice-type', case, 'AnsiStr slice returned %s' % type(r).__name__))
                            continue
                        r = model.content(r)
                except Exception as ex:  # noqa
                    bad.append(('slice-raises', case, '%s[%r:%r] raised %s: %s' % (form, i, j, type(ex).__name__, ex)))
                    continue
                ch = model.canon_hash(r)
                key = (s, max(s, e))
                if verified.get(key) == ch:
                    acc.validated += 1
                    continue
                if full_check(r, s, e, '%s[%r:%r]' % (form, i, j), case):
                    verified[key] = ch
                    acc.validated += 1
                    acc.outcome(ch)
            if record and s < e and (s > 0 or e < L):
                acc.nontriv(hash((model.chash(tuple(cells)), s, e)))
    # integer indices
    v = build(h)
    for k in [x for x in explore.probe_bounds(L, 2, 2) if x is not None]:
        acc.transitions += 1
        case = {'hist': h, 'op': ['index', k]}
        valid = -L <= k < L
        try:
            r = v[k]
        except IndexError:
            if valid:
                bad.append(('index-raises', case, 'v[%d] raised IndexError on length %d' % (k, L)))
            else:
                acc.validated += 1
            continue
        except Exception as ex:  # noqa
            bad.append(('index-raises', case, 'v[%d] raised %s: %s' % (k, type(ex).__name__, ex)))
            continue
        if not valid:
            bad.append(('index-no-error', case, 'v[%d] on length %d returned %r instead of raising IndexError'
                        % (k, L, r.base_str)))
            continue
        kk = k % L
        if full_check(r, kk, kk + 1, 'v[%d]' % k, case):
            acc.validated += 1
        # the AnsiStr twin of the integer index
        acc.transitions += 1
        case = {'hist': h, 'op': ['strindex', k]}
        try:
            rs = AnsiStr(build(h))[k]
            if type(rs) is not AnsiStr:
                bad.append(('slice-type', case, 'AnsiStr[%d] returned %s' % (k, type(rs).__name__)))
            elif full_check(model.content(rs), kk, kk + 1, 'AnsiStr(v)[%d]' % k, case):
                acc.validated += 1
        except Exception as ex:  # noqa
            bad.append(('index-raises', case, 'AnsiStr(v)[%d] raised %s: %s' % (k, type(ex).__name__, ex)))
    # step-1 slice objects, in-place clip, iteration
    for (i, j) in ((None, None), (1, None), (0, -1), (1, L), (-2, L + 1)):
        acc.transitions += 2
        case = {'hist': h, 'op': ['slice1', i, j]}
        s, e = norm_range(i, j, L)
        try:
            v = build(h)
            r = v[slice(i, j, 1)]
            if full_check(r, s, e, 'v[%r:%r:1]' % (i, j), case):
                acc.validated += 1
            w = build(h)
            case = {'hist': h, 'op': ['clipi', i, j]}
            r = w.clip(i, j, inplace=True)
            if r is not w:
                bad.append(('clip-inplace-identity', case, 'clip(inplace=True) did not return the receiver'))
            elif full_check(w, s, e, 'clip(%r,%r,inplace=True)' % (i, j), case):
                acc.validated += 1
        except Exception as ex:  # noqa
            bad.append(('slice-raises', case, 'raised %s: %s' % (type(ex).__name__, ex)))
    acc.transitions += 1
    case = {'hist': h, 'op': ['iter']}
    v = build(h)
    try:
        items = list(v)
        if len(items) != L:
            bad.append(('iter', case, 'iteration yields %d items for length %d' % (len(items), L)))
        else:
            for k, r in enumerate(items):
                t2, c2 = model.alpha_codes(r)
                if t2 != text[k] or not model.cells_equiv(c2, cells[k:k + 1]):
                    bad.append(('iter', case, 'item %d is %r %s, expected %r %s' % (k, t2, c2, text[k], cells[k:k + 1])))
                    break
            else:
                acc.validated += 1
                # the items are values of their own: editing one in place changes neither the others nor the source
                if L >= 2 and all(type(r) is AnsiString for r in items):
                    items[0].apply_formatting('3')
                    items[0] += AnsiString('!', '35')
                    items[-1].remove_formatting()
                    for k, r in list(enumerate(items))[1:-1] + [(-1, v)]:
                        t2, c2 = model.alpha_codes(r)
                        want_t, want_c = (text, cells) if k < 0 else (text[k], cells[k:k + 1])
                        if t2 != want_t or not model.cells_equiv(c2, want_c) or model.closed_check(r):
                            bad.append(('iter', case, 'after editing the first and the last item in place, %s is %r %s (expected %r %s)%s'
                                        % ('the source' if k < 0 else 'item %d' % k, t2, c2, want_t, want_c,
                                           '; ' + str(model.closed_check(r)) if model.closed_check(r) else '')))
                            break
    except Exception as ex:  # noqa
        bad.append(('iter', case, 'iteration raised %s: %s' % (type(ex).__name__, ex)))
    return bad


def run_task(task, acc):
    pool = explore.std_pool(task, acc.seed, acc)
    for h, v in pool.items:
        acc.current = {'hist': h}
        acc.state(model.canon_hash(v))
        acc.evaluations += 1
        explore.shape_counters(acc, model.alpha_codes(v)[1])
        for clause, case, detail in check_state(h, v, acc):
            acc.violation(clause, case, detail, sig=clause + ':' + case['op'][0])
        acc.sample({'hist': h, 'op': ['slice', 1, -1]})


def replay(case):
    from ..runner import Acc
    v = build(case['hist'])
    acc = Acc(0)
    out = []
    for clause, c, detail in check_state(case['hist'], v, acc, record=False):
        if c['op'] == case['op']:
            out.append((clause, detail))
    return out


def describe(tier, seed):
    return {
        'rule': 'states: BFS (dedup by canonical object graph) from plain/rainbow texts with apply/remove of the roles over '
                'every in-range range (+ structural ops: concat, pad, slice, self-concat) to the depth in bounds; probes per '
                'state: all (start, stop) in ([-L-2..L+2]+None)^2 as v[i:j], clip(i,j), AnsiStr(v)[i:j]; all integer indices; '
                'slice objects with step 1; clip in place; iteration. transitions = probe applications; a probe is '
                'non-trivial when it cuts a proper non-empty sub-range (distinct = distinct (cells, range)).',
        'bounds': {'plan(L, layouts, roles, depth, structural)': [list(map(str, p)) for p in plan(tier)],
                   'roles': explore.roles(seed)},
    }


def vacuity(tot, tier):
    c = tot['counters']
    for k in ('states_with_overlap', 'states_with_conflict', 'states_with_equal_pair'):
        if c.get(k, 0) == 0:
            return 'no state in collision class ' + k
    return None
