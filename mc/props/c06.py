"""C06 - apply_formatting changes exactly the range, with the documented precedence.

Engine A, relational oracle between alpha(v) and alpha(v') for every pool state x every (start, end) in
([-L-2..L+3]+None)^2 x topmost x settings (each role, a pair, empty).
"""
from .. import env
from ..env import AnsiString, AnsiStr
from .. import model, explore, refterm as rt
from ..hist import build, apply_op
from ..mops import norm_range

ID = 'C06'


def plan(tier):
    if tier == 'quick':
        return [(3, ('rs1s', 'rs2s', 'rs1c', 'rs2c'), 'RB', 0, False), (3, ('plain',), 'MB', 2, False), (2, ('plain',), 'RZq', 2, False), (3, ('tri',), 'R', 0, False), (1, ('plain',), 'RBWN', 2, False), (2, ('plain', 'rainbow'), 'RBWN', 2, False),
                (3, ('plain',), 'RBW', 2, False), (3, ('rainbow',), 'RWN', 1, True), (3, ('parsed',), 'RW', 1, False), (3, ('plain',), 'eB', 2, False), (3, ('plain',), 'gmB', 2, False), (3, ('long',), 'RB', 2, False), (2, ('plain',), 'WN', 3, False), (2, ('plain',), 'RB', 3, False), (3, ('dup1', 'dup2'), 'RW', 1, False), (4, ('rs1', 'rs2'), 'RBW', 1, False), (2, ('wide', 'wide2'), 'RW', 1, False)]
    return [(4, ('rs1s', 'rs2s', 'rs1c', 'rs2c'), 'RBW', 1, False), (3, ('plain',), 'MBk', 2, False), (3, ('plain',), 'RZqW', 2, False), (2, ('plain',), 'OEAV', 2, False), (3, ('tri', 'trix', 'triw'), 'R', 0, False), (4, ('tri',), 'R', 0, False), (1, ('plain',), 'RBWNX', 3, False), (2, ('plain', 'rainbow'), 'RBWN', 3, False),
            (3, ('plain', 'rainbow'), 'RBWN', 2, True), (3, ('plain',), 'RBW', 3, False), (4, ('plain', 'rainbow'), 'RBW', 2, False), (3, ('plain',), 'egmB', 2, False), (3, ('plain',), 'eB', 3, False), (3, ('long',), 'RBW', 2, False), (3, ('dup1', 'dup2'), 'RW', 1, False), (4, ('rs1', 'rs2'), 'RBW', 2, False), (2, ('wide', 'wide2'), 'RW', 2, False), (3, ('wide',), 'RW', 1, False)]


def tasks(tier, seed):
    return explore.std_tasks(explore.plan_override(ID, plan(tier)))


def settings_menu(seed, tier):
    R = explore.roles(seed)
    m = [[R['R']], [R['B']], [R['W']], [R['N']], [R['X']], [R['R'], R['W']], [], [R['e']], [R['g']], [R['m']],
         [R['R'], R['B']],        # two new settings that conflict with each other: the last one given shows
         ['int:1', R['e'], 'int:34'],   # integer codes before and after a setting in another form: the order given counts
         ['raw:;'],               # a non-empty argument that holds no setting: nothing to apply
         [R['M']],                # a directive string with arguments, as str (also one the value already holds)
         [R['Z']], [R['q']]]      # a reset, a verbatim setting of two groups: settings that touch more than their first code says
    if tier != 'quick':
        m += [[R['T']], [R['U']], [R['D']], [R['W'], R['N']], [R['o']], [R['B'], R['W'], R['R']]]
    return m


def uid_cells(v):
    return model.alpha(v)


def check_apply(h, pre, S, i, j, top, acc=None):
    """pre = (text, uid-cells, canon_hash) of the state built by h.  Performs the transition on a fresh
    value; returns (list of (clause, detail), post value)."""
    text, ucells, ch0 = pre[:3]
    L = len(text)
    cells = [model.codes_of(c) for c in ucells]
    bad = []
    v = build(h)
    S_spec = S
    from ..hist import expand_codes
    S = expand_codes(S_spec)          # the setting texts the (possibly spelled) settings stand for
    try:
        v.apply_formatting(model_settings(S_spec), i, j, top)
    except Exception as e:  # noqa
        return [('apply-raises', 'apply_formatting(%r,%r,%r,%r) raised %s: %s' % (S_spec, i, j, top, type(e).__name__, e))], None
    s, e = norm_range(i, j, L)
    try:
        t2, c2 = model.alpha_codes(v)
    except Exception as ex:  # noqa
        return [('apply-inconsistent', 'after apply_formatting(%r,%r,%r,%r): %s: %s' % (S, i, j, top, type(ex).__name__, ex))], v
    what = 'apply_formatting(%r,%r,%r,topmost=%r) [range %d:%d]' % (S_spec, i, j, top, s, e)
    if t2 != text:
        bad.append(('apply-text', '%s changed the text to %r' % (what, t2)))
        return bad, v
    if e <= s or not S:
        if not model.unchanged(v, pre[3]):
            bad.append(('apply-noop', '%s is not a no-op: cells %s -> %s (or == / rendering changed)' % (what, cells, c2)))
        return bad, v
    for k in range(L):
        old, new = cells[k], c2[k]
        if k < s or k >= e:
            if old != new and model.cell_nf(old) != model.cell_nf(new):
                bad.append(('apply-outside', '%s: char %d outside the range changed %s -> %s' % (what, k, list(old), list(new))))
                return bad, v
            continue
        if sorted(new) != sorted(old + tuple(S)):
            bad.append(('apply-inside-multiset', '%s: char %d reports %s, expected %s plus %s'
                        % (what, k, list(new), list(old), S)))
            return bad, v
        # the settings the character had before keep their relative precedence (decidable when the new
        # codes do not also occur among the old ones)
        if not (set(S) & set(old)):
            rest = tuple(c for c in new if c not in S)
            if rest != old and model.cell_nf(rest) != model.cell_nf(old):
                bad.append(('apply-inside-order', '%s: char %d had %s, now %s: precedence among the old settings changed'
                            % (what, k, list(old), list(new))))
                return bad, v
        st_new = dict(model.style_of(new))
        st_old = dict(model.style_of(old))
        if not top:
            touched = set()
            for c in old:
                t = rt.touches(c)
                touched |= set(rt.GROUPS) if '*' in t else t
            for g in touched:
                if st_new.get(g) != st_old.get(g):
                    bad.append(('apply-bottom-precedence', '%s: char %d had %s (displays %s=%s) now reports %s (displays %s)'
                                % (what, k, list(old), g, st_old.get(g), list(new), st_new.get(g))))
                    return bad, v
    if top:
        st_S = dict(model.style_of(tuple(S)))
        gS = set()
        for c in S:
            t = rt.touches(c)
            gS |= set(rt.GROUPS) if '*' in t else t
        k = s
        while k < e:
            if k > s:
                prev = set(u for u, _c in ucells[k - 1])
                if any(u not in prev for u, _c in ucells[k]):
                    break   # another setting begins here
            st_new = dict(model.style_of(c2[k]))
            for g in gS:
                if st_new.get(g) != st_S.get(g):
                    bad.append(('apply-top-precedence', '%s: char %d reports %s, displays %s=%s, the new settings give %s'
                                % (what, k, list(c2[k]), g, st_new.get(g), st_S.get(g))))
                    return bad, v
            k += 1
    err = model.self_check(v) or model.closed_check(v)
    if err:
        bad.append(('apply-corrupts', '%s: %s' % (what, err)))
    return bad, v


def model_settings(S):
    from ..hist import mk_settings
    return mk_settings(list(S))


def check_state(h, v, acc, tier, only=None):
    text, ucells = model.alpha(v)
    L = len(text)
    pre = (text, ucells, model.canon_hash(v), model.freeze_value(v))
    menu = settings_menu(acc.seed, tier)
    bounds = explore.probe_bounds(L, 2, 3)
    out = []
    norm_canon = {}
    # every normalised range (including one empty) x every S x topmost: full relational check
    rngs = explore.ranges(L) + [(1, 1)] if L >= 1 else [(0, 0)]
    for (s, e) in rngs:
        for S in menu:
            for top in (True, False):
                acc.transitions += 1
                bad, post = check_apply(h, pre, S, s, e, top)
                case = {'hist': h, 'op': ['apply', S, s, e, top]}
                if bad:
                    for clause, detail in bad:
                        out.append((clause, case, detail))
                else:
                    acc.validated += 1
                    ch = model.canon_hash(post)
                    norm_canon[(tuple(S), s, e, top)] = ch
                    acc.outcome(ch)
                    if S and e > s and any(ucells[s:e]):
                        acc.nontriv(hash((pre[2], tuple(S), s, e, top)))
    # every raw bound pair: must agree with the normalised call (canonical equality, else full check)
    raw_menu = menu[:4] if tier != 'quick' else menu[:1]     # (the whole menu on the raw grid made the thorough tier exceed its wall budget)
    for S in raw_menu:
        for top in (True, False):
            for i in bounds:
                for j in bounds:
                    if i is not None and j is not None and 0 <= i < j <= L:
                        continue
                    acc.transitions += 1
                    s, e = norm_range(i, j, L)
                    case = {'hist': h, 'op': ['apply', S, i, j, top]}
                    want = pre[2] if (e <= s or not S) else norm_canon.get((tuple(S), s, e, top))
                    w = build(h)
                    try:
                        w.apply_formatting(model_settings(S), i, j, top)
                        if want is not None and model.canon_hash(w) == want:
                            acc.validated += 1
                            continue
                    except Exception:  # noqa
                        pass
                    bad, _post = check_apply(h, pre, S, i, j, top)
                    if bad:
                        for clause, detail in bad:
                            out.append((clause, case, detail))
                    else:
                        acc.validated += 1
    # AnsiStr twin over the whole bounds grid (a forwarding slip in the wrapper shows only for particular bounds)
    S = menu[0]
    vs0 = AnsiStr(build(h))
    # (on every fifth state in the quick tier: the wrapper does not look at the value)
    for top in ((True, False) if (tier != 'quick' or pre[2] % 5 == 0) else ()):
        for i in bounds:
            for j in bounds:
                acc.transitions += 1
                case = {'hist': h, 'op': ['apply_str_grid', S, i, j, top]}
                try:
                    w = build(h)
                    w.apply_formatting(model_settings(S), i, j, top)
                    r = vs0.apply_formatting(model_settings(S), i, j, top)
                    if type(r) is not AnsiStr or model.alpha_codes(r) != model.alpha_codes(w):
                        out.append(('apply-ansistr', case, 'AnsiStr.apply_formatting(%r,%r,%r,%r) differs from AnsiString' % (S, i, j, top)))
                    else:
                        acc.validated += 1
                except Exception as ex:  # noqa
                    out.append(('apply-ansistr', case, 'AnsiStr.apply_formatting(%r,%r,%r,%r): %s: %s' % (S, i, j, top, type(ex).__name__, ex)))
    if L:
        S = menu[0]
        vs = AnsiStr(build(h))
        r = vs.apply_formatting(model_settings(S), 0, None, True)
        acc.transitions += 1
        w = build(h)
        w.apply_formatting(model_settings(S), 0, None, True)
        if type(r) is not AnsiStr or model.alpha_codes(r) != model.alpha_codes(w):
            out.append(('apply-ansistr', {'hist': h, 'op': ['apply_str', S]}, 'AnsiStr.apply_formatting differs from AnsiString'))
        else:
            acc.validated += 1
    return out


def run_task(task, acc):
    tier = env.tier()
    pool = explore.std_pool(task, acc.seed, acc)
    for h, v in pool.items:
        acc.current = {'hist': h}
        acc.state(model.canon_hash(v))
        acc.evaluations += 1
        explore.shape_counters(acc, model.alpha_codes(v)[1])
        for clause, case, detail in check_state(h, v, acc, tier):
            acc.violation(clause, case, detail, sig=clause + (':top' if case['op'][-1] is True else ':bottom'))
        acc.sample({'hist': h, 'op': ['apply', ['31'], 1, None, False]})


def replay(case):
    h = case['hist']
    op = case['op']
    v = build(h)
    text, ucells = model.alpha(v)
    pre = (text, ucells, model.canon_hash(v), model.freeze_value(v))
    if op[0] != 'apply':
        return []
    bad, _ = check_apply(h, pre, op[1], op[2], op[3], op[4])
    return bad


def describe(tier, seed):
    return {
        'rule': 'states: BFS pools (plan in bounds). Per state: every in-range range (plus an empty one) x every settings '
                'choice x topmost gets the full relational check (text, outside cells, inside multiset, bottom/top '
                'precedence, closedness + self-check of the post-state); every raw (start, end) in ([-L-2..L+3]+None)^2 must '
                'reach the same canonical post-state as its slice-normalised call (full check otherwise). Non-trivial = the '
                'range covers at least one already formatted character; distinct by (state, settings, range, topmost).',
        'bounds': {'plan(L, layouts, roles, depth, structural)': [list(map(str, p)) for p in plan(tier)],
                   'settings': settings_menu(seed, tier)},
    }


def vacuity(tot, tier):
    c = tot['counters']
    for k in ('states_with_overlap', 'states_with_conflict', 'states_with_equal_pair'):
        if c.get(k, 0) == 0:
            return 'no state in collision class ' + k
    return None
