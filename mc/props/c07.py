"""C07 - remove_formatting removes exactly the requested settings, only inside the range.

Engine A, deterministic model: inside the slice-normalised range each cell loses every token whose code is
one of the given ones (all for None), the rest keeps its order; outside nothing changes (same settings, same
precedence among conflicting ones).  Every pool state x every (start, end) x every selection.
"""
from .. import env
from ..env import AnsiString, AnsiStr
from .. import model, explore
from ..hist import build, mk_settings
from ..mops import norm_range

ID = 'C07'


def plan(tier):
    if tier == 'quick':
        return [(3, ('rs1s', 'rs2s', 'rs1c', 'rs2c'), 'RB', 0, False), (2, ('plain',), 'RZq', 2, False), (3, ('tri', 'triw'), 'R', 0, False), (1, ('plain',), 'RBWN', 2, False), (2, ('plain', 'rainbow'), 'RBWN', 2, False), (2, ('plain',), 'oq', 2, False),
                (3, ('plain',), 'RBW', 2, False), (3, ('rainbow',), 'RWN', 1, True), (4, ('plain',), 'RB', 2, False), (3, ('parsed',), 'RW', 1, False), (3, ('plain',), 'egB', 2, False), (3, ('long',), 'RB', 2, False), (2, ('plain',), 'WN', 3, False), (2, ('plain',), 'RB', 3, False), (3, ('dup1', 'dup2'), 'RW', 1, False), (4, ('rs1', 'rs2'), 'RBW', 1, False), (2, ('wide', 'wide2'), 'RW', 1, False)]
    return [(4, ('rs1s', 'rs2s', 'rs1c', 'rs2c'), 'RBW', 1, False), (3, ('plain',), 'RZqW', 2, False), (3, ('tri', 'trix', 'triw'), 'R', 0, False), (4, ('tri', 'triw'), 'R', 0, False), (1, ('plain',), 'RBWNX', 3, False), (2, ('plain', 'rainbow'), 'RBWN', 3, False), (3, ('plain',), 'oqW', 2, False),
            (3, ('plain', 'rainbow'), 'RBWN', 2, True), (3, ('plain',), 'RBW', 3, False), (4, ('plain', 'rainbow'), 'RBW', 2, False),
            (5, ('plain',), 'RB', 2, False), (3, ('long',), 'RBW', 2, False), (3, ('dup1', 'dup2'), 'RW', 1, False), (4, ('rs1', 'rs2'), 'RBW', 2, False), (2, ('wide', 'wide2'), 'RW', 2, False), (3, ('wide',), 'RW', 1, False)]


def tasks(tier, seed):
    return explore.std_tasks(explore.plan_override(ID, plan(tier)))


def menu(seed, tier):
    R = explore.roles(seed)
    m = [None, [R['R']], [R['B']], [R['W']], [R['N']], [R['G']], [R['R'], R['B']], [R['R'], R['W']], [], [R['e']], [R['m']],
         ['raw:;'], ['raw:']]       # non-empty arguments that hold no setting: nothing to remove
    if tier != 'quick':
        m += [[R['X']], [R['T']], [R['R'], R['B'], R['W'], R['N']], [R['o']], [R['q']]]
    return m


def model_remove(cells, S, s, e):
    out = []
    for k, c in enumerate(cells):
        if s <= k < e:
            out.append(() if S is None else tuple(x for x in c if x not in S))
        else:
            out.append(c)
    return out


def check_remove(h, pre, S, i, j):
    text, cells, ch0 = pre[:3]
    L = len(text)
    v = build(h)
    what = 'remove_formatting(%r,%r,%r)' % (S, i, j)
    try:
        v.remove_formatting(mk_settings(S), i, j)
    except Exception as e:  # noqa
        return [('remove-raises', '%s raised %s: %s' % (what, type(e).__name__, e))], None
    s, e = norm_range(i, j, L)
    what += ' [range %d:%d]' % (s, e)
    try:
        t2, c2 = model.alpha_codes(v)
    except Exception as ex:  # noqa
        return [('remove-inconsistent', 'after %s: %s: %s' % (what, type(ex).__name__, ex))], v
    bad = []
    if t2 != text:
        return [('remove-text', '%s changed the text to %r' % (what, t2))], v
    if e <= s:
        if not model.unchanged(v, pre[3]):
            bad.append(('remove-noop', '%s with an empty range is not a no-op: cells %s -> %s' % (what, cells, c2)))
        return bad, v
    from ..hist import expand_codes
    want = model_remove(cells, None if S is None else expand_codes(S), s, e)
    for k in range(L):
        if c2[k] != want[k] and model.cell_nf(c2[k]) != model.cell_nf(want[k]):
            inside = s <= k < e
            bad.append(('remove-inside' if inside else 'remove-outside',
                        '%s: char %d (%s the range) had %s, now reports %s, expected %s'
                        % (what, k, 'inside' if inside else 'outside', list(cells[k]), list(c2[k]), list(want[k]))))
            return bad, v
    err = model.self_check(v) or model.closed_check(v)
    if err:
        bad.append(('remove-corrupts', '%s: %s' % (what, err)))
    return bad, v


def check_state(h, v, acc, tier):
    text, cells = model.alpha_codes(v)
    L = len(text)
    pre = (text, cells, model.canon_hash(v), model.freeze_value(v))
    m = menu(acc.seed, tier)
    bounds = explore.probe_bounds(L, 2, 3)
    out = []
    norm_canon = {}
    present = set(c for cell in cells for c in cell)
    rngs = explore.ranges(L) + ([(1, 1)] if L >= 1 else [(0, 0)])
    for (s, e) in rngs:
        for S in m:
            acc.transitions += 1
            bad, post = check_remove(h, pre, S, s, e)
            case = {'hist': h, 'op': ['remove', S, s, e]}
            if bad:
                for clause, detail in bad:
                    out.append((clause, case, detail))
            else:
                acc.validated += 1
                ch = model.canon_hash(post)
                norm_canon[(None if S is None else tuple(S), s, e)] = ch
                acc.outcome(ch)
                if e > s and (S is None or set(S) & present) and any(cells[s:e]):
                    acc.nontriv(hash((pre[2], None if S is None else tuple(S), s, e)))
    raw = m[:5] if tier != 'quick' else [None, m[1]]
    for S in raw:
        for i in bounds:
            for j in bounds:
                if i is not None and j is not None and 0 <= i < j <= L:
                    continue
                acc.transitions += 1
                s, e = norm_range(i, j, L)
                want = pre[2] if e <= s else norm_canon.get((None if S is None else tuple(S), s, e))
                w = build(h)
                try:
                    w.remove_formatting(mk_settings(S), i, j)
                    if want is not None and model.canon_hash(w) == want:
                        acc.validated += 1
                        continue
                except Exception:  # noqa
                    pass
                bad, _ = check_remove(h, pre, S, i, j)
                case = {'hist': h, 'op': ['remove', S, i, j]}
                if bad:
                    for clause, detail in bad:
                        out.append((clause, case, detail))
                else:
                    acc.validated += 1
    # AnsiStr twin over the whole bounds grid (a forwarding slip in the wrapper shows only for particular bounds)
    vs0 = AnsiStr(build(h))
    # (on every fifth state in the quick tier: the wrapper does not look at the value)
    for S in ((None, m[1]) if (tier != 'quick' or pre[2] % 5 == 0) else ()):
        for i in bounds:
            for j in bounds:
                acc.transitions += 1
                case = {'hist': h, 'op': ['remove_str_grid', S, i, j]}
                try:
                    w = build(h)
                    w.remove_formatting(mk_settings(S), i, j)
                    r = vs0.remove_formatting(mk_settings(S), i, j)
                    if type(r) is not AnsiStr or model.alpha_codes(r) != model.alpha_codes(w):
                        out.append(('remove-ansistr', case, 'AnsiStr.remove_formatting(%r,%r,%r) differs from AnsiString' % (S, i, j)))
                    else:
                        acc.validated += 1
                except Exception as ex:  # noqa
                    out.append(('remove-ansistr', case, 'AnsiStr.remove_formatting(%r,%r,%r): %s: %s' % (S, i, j, type(ex).__name__, ex)))
    # clear_formatting, and the AnsiStr twins
    acc.transitions += 3
    w = build(h)
    try:
        w.clear_formatting()
        t2, c2 = model.alpha_codes(w)
        if t2 != text or any(c2) or model.healthy(w):
            out.append(('clear', {'hist': h, 'op': ['clear']}, 'clear_formatting left %r %s %s' % (t2, c2, model.healthy(w))))
        else:
            acc.validated += 1
        vs = AnsiStr(build(h))
        r = vs.clear_formatting()
        if type(r) is not AnsiStr or r.base_str != text or any(model.alpha_codes(r)[1]):
            out.append(('clear', {'hist': h, 'op': ['clear_str']}, 'AnsiStr.clear_formatting wrong'))
        else:
            acc.validated += 1
        if L:
            r = vs.remove_formatting(None, 0, 1)
            w = build(h)
            w.remove_formatting(None, 0, 1)
            if type(r) is not AnsiStr or model.alpha_codes(r) != model.alpha_codes(w):
                out.append(('remove-ansistr', {'hist': h, 'op': ['remove_str']}, 'AnsiStr.remove_formatting differs'))
            else:
                acc.validated += 1
    except Exception as e:  # noqa
        out.append(('clear', {'hist': h, 'op': ['clear']}, 'raised %s: %s' % (type(e).__name__, e)))
    return out


def run_task(task, acc):
    tier = env.tier()
    pool = explore.std_pool(task, acc.seed, acc)
    for h, v in pool.items:
        acc.current = {'hist': h}
        acc.state(model.canon_hash(v))
        acc.evaluations += 1
        cells = model.alpha_codes(v)[1]
        explore.shape_counters(acc, cells)
        for clause, case, detail in check_state(h, v, acc, tier):
            acc.violation(clause, case, detail, sig=clause + ':' + ('all' if case['op'][0] == 'remove' and case['op'][1] is None else 'sel'))
        acc.sample({'hist': h, 'op': ['remove', ['31'], 1, None]})


def replay(case):
    h = case['hist']
    op = case['op']
    v = build(h)
    text, cells = model.alpha_codes(v)
    pre = (text, cells, model.canon_hash(v), model.freeze_value(v))
    if op[0] == 'remove':
        return check_remove(h, pre, op[1], op[2], op[3])[0]
    from ..runner import Acc
    return [(cl, d) for cl, c, d in check_state(h, v, Acc(0), 'quick') if c['op'] == op]


def describe(tier, seed):
    return {
        'rule': 'states: BFS pools (plan in bounds). Per state: every in-range range (plus an empty one) x every selection '
                '(None, each role, an absent role, pairs, empty list) gets the full model comparison + closedness/self-check; '
                'every raw (start, end) in ([-L-2..L+3]+None)^2 must reach the canonical post-state of its normalised call; '
                'clear_formatting and AnsiStr twins. Non-trivial = the selection hits a setting present in the range.',
        'bounds': {'plan(L, layouts, roles, depth, structural)': [list(map(str, p)) for p in plan(tier)],
                   'selections': [repr(x) for x in menu(seed, tier)]},
    }


def vacuity(tot, tier):
    c = tot['counters']
    for k in ('states_with_overlap', 'states_with_conflict', 'states_with_equal_pair'):
        if c.get(k, 0) == 0:
            return 'no state in collision class ' + k
    return None
