"""Small JSON operation language: a value is the history that builds it.

history = [seed, op, op, ...]; every element is a JSON list.  `build` replays it on fresh objects.
Settings are written as code strings ('31', '38;5;214'); they are handed to the library as AnsiSetting
objects so that Engine A does not depend on the name/int spellings (those are C14's business).  A
code starting with '[' is handed over as that string (verbatim setting via the documented '[' form).
"""
import os
from .env import AnsiString, AnsiStr, AnsiSetting, HarnessError


def mk_settings(codes):
    """codes: None | str | list of str -> what is passed to the library."""
    if codes is None:
        return None
    if isinstance(codes, str):
        codes = [codes]
    out = []
    for c in codes:
        if c.startswith('['):
            out.append(c)
        elif c.startswith('raw:'):
            out.append(c[4:])          # a settings string handed over as it is (';' - separators only, for instance)
        elif c.startswith('name:'):
            out.append(c[5:])
        elif c.startswith('enum:'):
            from .env import AnsiFormat
            out.append(AnsiFormat[c[5:]])
        elif c.startswith('int:'):
            out.append(int(c[4:]))
        elif c.startswith('nest:'):
            from .env import AnsiFormat
            out.append([[AnsiFormat[c[5:]]]])
        else:
            out.append(AnsiSetting(c))
    return out


def rainbow_code(i):
    return '38;5;%d' % (i + 16)


def seed_value(seed):
    kind = seed[0]
    if kind == 'plain':
        return AnsiString(seed[1])
    if kind == 'rainbow':
        v = AnsiString(seed[1])
        for i in range(len(seed[1])):
            v.apply_formatting(AnsiSetting(rainbow_code(i)), i, i + 1)
        return v
    if kind == 'parse':
        return AnsiString(seed[1])
    if kind == 'parsed':
        # a value produced by the parser from interleaved SGR sequences (its change points carry stop and start
        # markers at the same index, unlike API-built values)
        t = seed[1]
        raw = '\x1b[1;31m' + t[:1] + '\x1b[22m' + t[1:2] + '\x1b[0;4;38;5;99m' + t[2:3] + '\x1b[39m' + t[3:] + '\x1b[m'
        return AnsiString(raw)
    if kind == 'ctor':
        return AnsiString(seed[1], *[mk_settings(c) for c in seed[2:]])
    if kind == 'str':
        return AnsiStr(seed[1], *[mk_settings(c) for c in seed[2:]])
    raise HarnessError('unknown seed %r' % (seed,))


def operand(h):
    """An operand of a binary op: a history, or ['lit', str] for a plain str."""
    if isinstance(h[0], str):
        if h[0] == 'lit':
            return h[1]
        return seed_value(h)       # a bare seed
    return build(h)


def apply_op(v, op):
    """Apply one op to value v; returns the new current value (v itself for in-place ops)."""
    k = op[0]
    if k == 'apply':
        v.apply_formatting(mk_settings(op[1]), op[2], op[3], op[4] if len(op) > 4 else True)
        return v
    if k == 'remove':
        v.remove_formatting(mk_settings(op[1]), op[2], op[3])
        return v
    if k == 'slice':
        return v[op[1]:op[2]]
    if k == 'index':
        return v[op[1]]
    if k == 'clip':
        return v.clip(op[1], op[2], inplace=op[3] if len(op) > 3 else False)
    if k == 'cat':
        return v + operand(op[1])
    if k == 'icat':
        v += operand(op[1])
        return v
    if k == 'rcat':
        return operand(op[1]) + v
    if k == 'selfcat':
        return v + v
    if k == 'iselfcat':
        v += v
        return v
    if k == 'join':
        return AnsiString.join(v, *[operand(h) for h in op[1:]])
    if k in ('center', 'ljust', 'rjust'):
        return getattr(v, k)(op[1], op[2], inplace=op[3], extend_formatting=op[4])
    if k == 'zfill':
        return v.zfill(op[1], inplace=op[2])
    if k == 'assign':
        v.assign_str(op[1])
        return v
    if k == 'simplify':
        v.simplify()
        return v
    if k == 'read':
        # every kind of query, no mutation: must be transparent for whatever follows (lazily computed flags, remembered
        # answers).  Order: a few queries, then calls that are mutators by name but must change nothing here (they may fill,
        # consult or drop remembered answers too), then every kind of query - so that whatever queries leave behind is in
        # place when the next step runs.
        str(v)
        v.is_optimizable()
        if len(v):
            v.settings_at(0)
            v.find_settings(v.ansi_settings_at(0) or AnsiSetting('1'))
        n_ = len(v)
        v.remove_formatting(AnsiSetting('95'), 0, n_)
        v.apply_formatting([], 0, n_)
        v.format_matching('\x00\x00q', AnsiSetting('95'))
        v.unformat_matching('\x00\x00q', AnsiSetting('95'))
        v.replace('\x00\x00q', 'x', inplace=True)
        v.clip(inplace=True)
        v.strip('\x00', inplace=True)
        v.removeprefix('\x00\x00q', inplace=True)
        v.ljust(n_, inplace=True)
        v.center(n_, inplace=True)
        str(v)
        v.to_str(optimize=False)
        format(v, '')
        v.is_formatting_valid()
        v.is_formatting_parsable()
        v.is_optimizable()
        if len(v):
            v.settings_at(0)
            v.ansi_settings_at(len(v) - 1)
            v.find_settings(v.ansi_settings_at(0) or AnsiSetting('1'))
            v.find_settings(v.ansi_settings_at(len(v) - 1) or AnsiSetting('1'), reverse=True)
        v.find_settings(AnsiSetting('1'))
        v.find_settings(AnsiSetting('31'), reverse=True)
        v == v.copy()
        AnsiStr(v)
        len(v)
        v.base_str
        list(v)
        v[0:1]
        v[1:]
        format(v, '>3')
        'a' in v
        v.count('a')
        v.find('a')
        v.split()
        v.isalpha()
        v.lower()
        v.strip()
        return v
    if k == 'reparse':
        return AnsiString(str(v))
    if k == 'copy':
        return v.copy()
    if k == 'viastr':
        return AnsiString(AnsiStr(v))
    if k == 'clear':
        v.clear_formatting()
        return v
    if k == 'replace':
        new = op[2]
        if isinstance(new, list):
            new = operand(new)
        return v.replace(op[1], new, op[3], inplace=op[4] if len(op) > 4 else False)
    if k == 'strip':
        return getattr(v, op[1])(op[2], inplace=op[3] if len(op) > 3 else False)
    if k == 'case':
        return getattr(v, op[1])(inplace=op[2] if len(op) > 2 else False)
    if k == 'fmtmatch':
        v.format_matching(op[1], *[mk_settings(c) for c in op[2]], regex=op[3], match_case=op[4], count=op[5])
        return v
    if k == 'unfmtmatch':
        v.unformat_matching(op[1], *[mk_settings(c) for c in op[2]], regex=op[3], match_case=op[4], count=op[5])
        return v
    raise HarnessError('unknown op %r' % (op,))


READS = os.environ.get('VERIF_READS', '0') == '1'


def build(history, reads=None):
    """Replays a history on fresh objects.  With reads (default: the module flag READS, set by VERIF_READS=1) a full round
    of queries (the 'read' operation) follows every step, so that whatever an implementation remembers from a query is in
    place when the next step and the probes run; queries are transparent on a correct implementation (C09 checks that
    separately, always without this flag)."""
    if reads is None:
        reads = READS
    v = seed_value(history[0])
    if reads and isinstance(v, AnsiString):
        apply_op(v, ['read'])
    for op in history[1:]:
        v = apply_op(v, op)
        if reads and isinstance(v, AnsiString) and op[0] != 'read':
            apply_op(v, ['read'])
    return v


def show(history):
    return ' . '.join(repr(x) for x in history)


import re as _re
_FUNC_DIRECTIVE = _re.compile(r'^(|fg_|bg_)(rgb|color256)\(([0-9, ]+)\)$', _re.I)


def codes_of_spec(spec):
    """The setting texts a settings spec of the operation language stands for (what ansi_settings_at reports)."""
    from .env import AnsiFormat
    if spec.startswith('['):
        return [spec[1:]]
    if spec.startswith('raw:'):
        if spec[4:].strip('; ') == '':
            return []                  # separators only: no setting at all
        raise HarnessError('raw settings text %r has no model' % spec)
    if spec.startswith('enum:') or spec.startswith('nest:'):
        return [str(x) for x in AnsiFormat[spec[5:]].ansi_settings]
    if spec.startswith('int:'):
        return [spec[4:]]
    if spec.startswith('name:'):
        out = []
        for n in spec[5:].split(';'):
            fm = _FUNC_DIRECTIVE.match(n.strip())
            if fm:
                # rgb(r,g,b) / fg_rgb / bg_rgb / color256(n) / fg_color256 / bg_color256 (documented directive strings)
                lead = {'': '38', 'fg_': '38', 'bg_': '48'}[fm.group(1).lower()]
                nums = [str(int(x)) for x in fm.group(3).split(',')]
                out.append(';'.join([lead, '2' if fm.group(2).lower() == 'rgb' else '5'] + nums))
                continue
            out.extend(str(x) for x in AnsiFormat[n.upper().replace(' ', '_').replace('-', '_')].ansi_settings)
        return out
    return [spec]


def expand_codes(S):
    out = []
    for x in S:
        out.extend(codes_of_spec(x))
    return out


def spell(code, kind):
    """Another documented spelling of a one-code setting: kind in enum / name / nest / int."""
    from .env import AnsiFormat
    if kind == 'int':
        return 'int:' + code
    for name, m in AnsiFormat.__members__.items():
        if [str(x) for x in m.ansi_settings] == [code]:
            return {'enum': 'enum:' + name, 'nest': 'nest:' + name, 'name': 'name:' + name.lower()}[kind]
    raise HarnessError('no AnsiFormat member for code %s' % code)
