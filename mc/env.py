"""Binding to the tree under test, determinism, tiers, seeds.

Every check imports the library through this module, so that it is always the
working tree of $VERIF_REPO (default /repo) that is exercised.
"""
import os
import sys

REPO = os.environ.get('VERIF_REPO', '/repo')
SRC = os.path.join(REPO, 'src')
VERIF = os.path.dirname(os.path.dirname(os.path.abspath(__file__)))

if SRC not in sys.path[:1]:
    sys.path.insert(0, SRC)
sys.dont_write_bytecode = True

# guard for hooks in the library (none are needed; recorded in MANIFEST.hooks)
os.environ.setdefault('ANSI_STRING_VERIF', '1')

import ansi_string as _lib  # noqa: E402

if not os.path.abspath(_lib.__file__).startswith(os.path.abspath(SRC) + os.sep):
    sys.stderr.write('HARNESS-ERROR: ansi_string imported from %s, expected under %s\n' % (_lib.__file__, SRC))
    sys.exit(2)

from ansi_string import AnsiString, AnsiStr, AnsiFormat, AnsiSetting  # noqa: E402,F401
from ansi_string import ansi_string as lib_mod  # noqa: E402,F401
from ansi_string import ansi_parsing as lib_parsing  # noqa: E402,F401
from ansi_string import ansi_format as lib_format  # noqa: E402,F401
from ansi_string import ansi_param as lib_param  # noqa: E402,F401

AnsiString.WITH_ASSERTIONS = True

ESC = '\x1b'


def tier():
    t = os.environ.get('VERIF_TIER', 'quick')
    return t if t in ('quick', 'thorough') else 'quick'


def seed():
    try:
        return int(os.environ.get('VERIF_SEED', '0'))
    except ValueError:
        return 0


class HarnessError(Exception):
    """The harness itself is inconsistent (never a verdict about the library)."""
