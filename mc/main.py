"""./check <ID> [--tier quick|thorough] [--seed N] | ./check --replay <file> | ./check --setup"""
import argparse
import os
import sys


def main():
    ap = argparse.ArgumentParser()
    ap.add_argument('pid', nargs='?')
    ap.add_argument('--tier', default=None)
    ap.add_argument('--seed', type=int, default=None)
    ap.add_argument('--jobs', type=int, default=None)
    ap.add_argument('--replay', default=None)
    ap.add_argument('--setup', action='store_true')
    a = ap.parse_args()
    if a.tier:
        os.environ['VERIF_TIER'] = a.tier
    if a.seed is not None:
        os.environ['VERIF_SEED'] = str(a.seed)
    from . import env
    if a.setup:
        from . import selftest
        return selftest.main()
    from . import runner
    if a.replay:
        return runner.replay_file(a.replay)
    if not a.pid:
        ap.error('property id required')
    from . import selftest
    rc = selftest.main(quiet=True)
    if rc:
        return rc
    return runner.run_check(a.pid.upper(), env.tier(), env.seed(), jobs=a.jobs)


if __name__ == '__main__':
    sys.exit(main())
