"""Shape predicates for OPEN known findings (known_findings.json -> open[].predicate names a function here).

A predicate receives the structured violation record {'clause', 'case', 'detail', 'sig'} and returns True only
for violations with the finding's root cause (operation, argument class and pre-state shape) - never by property
id alone.  There are currently no open findings: every defect found on the pinned tree was repaired with a
`fix:` commit (see DESIGN.md 6.1), so this module defines no predicates.
"""
