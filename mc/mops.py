"""Model operations on (text, cells) - written from the property statements."""


def norm_range(start, end, n):
    """Python slice normalisation of [start, end) on a sequence of length n."""
    return slice(start, end).indices(n)[:2]


def selftest():
    fails = []
    for n in range(0, 5):
        t = 'abcd'[:n]
        for a in list(range(-n - 2, n + 3)) + [None]:
            for b in list(range(-n - 2, n + 3)) + [None]:
                s, e = norm_range(a, b, n)
                if t[s:e] != t[a:b] and not (e < s and t[a:b] == ''):
                    fails.append('norm_range(%r,%r,%d)' % (a, b, n))
    return fails
