"""Per-call watchdog: a call that burns more than CPU_S seconds is re-run under a deterministic budget of
LINE_BUDGET interpreted lines; only exceeding that budget is reported as non-termination."""
import signal
import sys

CPU_S = 2.0
LINE_BUDGET = 10 ** 6


class CallTimeout(Exception):
    pass


class Hang(Exception):
    """The call did not finish within LINE_BUDGET interpreted lines."""


def _on_vtalrm(_s, _f):
    raise CallTimeout()


def _count_run(fn, args, kwargs):
    n = [0]

    def tracer(frame, event, arg):
        if event == 'line':
            n[0] += 1
            if n[0] > LINE_BUDGET:
                raise Hang('more than %d interpreted lines' % LINE_BUDGET)
        return tracer
    old = sys.gettrace()
    sys.settrace(tracer)
    try:
        return fn(*args, **kwargs)
    finally:
        sys.settrace(old)


def guarded(fn, *args, **kwargs):
    """Run fn(*args); raises Hang if it does not terminate within the deterministic step budget."""
    signal.signal(signal.SIGVTALRM, _on_vtalrm)
    signal.setitimer(signal.ITIMER_VIRTUAL, CPU_S)
    try:
        return fn(*args, **kwargs)
    except CallTimeout:
        signal.setitimer(signal.ITIMER_VIRTUAL, 0)
        return _count_run(fn, args, kwargs)
    finally:
        signal.setitimer(signal.ITIMER_VIRTUAL, 0)
