"""Engine A: explicit-state breadth-first exploration of real AnsiString values.

A state is the history that builds it (replayed on fresh objects for every transition, so the explorer never
relies on the library's own copy()); states are deduplicated by the exact canonical form of the object graph
(model.canon).  The first history reaching a state is kept, so witnesses are shortest.
"""
from . import env
from . import model
from .hist import build, apply_op, rainbow_code

# palette roles (DESIGN 2.3); seed 0 values
ROLES0 = {'R': '31', 'B': '34', 'G': '32', 'W': '1', 'F': '2', 'N': '22', 'U': '4', 'D': '21',
          'X': '38;5;214', 'T': '48;2;1;2;3', 'Z': '0',
          # verbatim settings (documented '[' form): incomplete group, multi-group, invalid, unknown code
          'p': '[38', 'q': '[32;31', 'x': '[xm', 'u': '[99', 'y': '[38;5;196;1',
          # a non-canonical spelling handed over as an AnsiSetting object (leading zero; kept verbatim)
          'o': '01;31',
          # less common effect groups: overline, encircled, italic, strike, spacing, font, blink, underline colour
          # extended colours with zero parameters (a '0' inside a colour is not a reset)
          'L': '38;5;0', 'Q': '48;2;0;0;0',
          # a verbatim selector that lacks its last parameter: in a rendering it runs into the setting that follows it
          'P': '[38;5',
          # a verbatim setting whose first code belongs to another group than the code that matters (bold, then red)
          'Y': '[1;31',
          # directive strings with arguments (handed over as str: the library parses them on every use)
          'M': 'name:rgb(1,2,3)', 'k': 'name:bg_color256(7)',
          'O': '53', 'E': '52', 'I': '3', 'H': '9', 'J': '26', 'S': '11', 'K': '5', 'C': '58;5;9', 'A': '55', 'V': '54',
          'b': 'name:bold', 'r': 'name:fg_red'}
FG1 = ['31', '34', '32', '33', '35', '36', '91', '94', '92']


def roles(seed):
    """Concrete codes per role; the seed permutes codes within a class (lengths preserved)."""
    r = dict(ROLES0)
    if seed:
        k = seed % len(FG1)
        rot = FG1[k:] + FG1[:k]
        r['R'], r['B'], r['G'] = rot[0], rot[1], rot[2]
        r['W'] = ['1', '2'][seed % 2]
        r['F'] = ['2', '1'][seed % 2]
        r['U'], r['D'] = (['4', '21'], ['21', '4'])[(seed // 2) % 2]
        r['X'] = '38;5;%d' % (100 + (seed * 37) % 150)
        r['T'] = '48;2;%d;%d;%d' % (1 + seed % 9, 2 + seed % 7, 3 + seed % 5)
    from .hist import spell
    r['e'] = spell(r['R'], 'enum')      # the same red through other documented spellings
    r['g'] = spell(r['R'], 'nest')
    r['m'] = spell(r['R'], 'name')
    return r


def letters(seed, n):
    base = 'abcdefghijklmnopqrstuvwxyz'
    k = seed % 20
    return base[k:k + n]


LONG = 300     # length of the plain prefix of 'long' layouts: change points beyond 256 (and three-digit indices)


def positions(L):
    """Index positions used for ranges: all of them on short texts; on long texts both ends."""
    if L <= 8:
        return list(range(0, L + 1))
    return [0, L - 2, L - 1, L]


def ranges(L, empty=False):
    out = []
    ps = positions(L)
    for s in ps:
        for e in ps:
            if e > s or (empty and e == s):
                out.append((s, e))
    return out


def probe_bounds(L, lo=2, hi=2):
    """Raw (start / stop) values for probes: every integer in [-L-lo .. L+hi] plus None on short texts; on long
    texts the values around both ends, their negative counterparts and the out-of-range ones."""
    if L <= 8:
        return list(range(-L - lo, L + hi + 1)) + [None]
    return [None, 0, 1, L - 2, L - 1, L, L + 1, L + hi, -1, -2, -L, -L - 1, -L - lo]


def gen_apply_remove(L, codes, topmost=(True, False), remove_none=True):
    """The core generator alphabet: apply/remove of each code over every non-empty in-range range."""
    ops = []
    rg = ranges(L)
    for c in codes:
        for (s, e) in rg:
            for t in topmost:
                ops.append(['apply', c, s, e, t])
    for c in (list(codes) + ([None] if remove_none else [])):
        for (s, e) in rg:
            ops.append(['remove', c, s, e])
    return ops


class Pool:
    """Result of a BFS: states (hist, value, alpha) in BFS order + counters."""

    def __init__(self):
        self.items = []          # (hist, value)
        self.seen = {}           # chash -> hist or None (quarantined)
        self.transitions = 0
        self.quarantined = 0
        self.depth_done = 0


def bfs(seed_hists, gen_ops, depth, health=True, max_states=None, keep=None):
    """gen_ops(value, hist) -> iterable of ops.  Returns a Pool with every distinct healthy state."""
    pool = Pool()
    frontier = []
    for h in seed_hists:
        v = build(h)
        c = model.canon_hash(v)
        if c in pool.seen:
            continue
        pool.seen[c] = h
        pool.items.append((h, v))
        frontier.append((h, v))
    for d in range(depth):
        nxt = []
        for h, v in frontier:
            for op in gen_ops(v, h):
                h2 = h + [op]
                try:
                    w = build(h2)
                except env.HarnessError:
                    raise
                except Exception:  # noqa  (an op that raises produces no state; C09 looks at those)
                    pool.transitions += 1
                    continue
                pool.transitions += 1
                c = model.canon_hash(w)
                if c in pool.seen:
                    continue
                if health and model.healthy(w) is not None:
                    pool.seen[c] = None
                    pool.quarantined += 1
                    continue
                if keep is not None and not keep(w):
                    pool.seen[c] = None
                    continue
                pool.seen[c] = h2
                pool.items.append((h2, w))
                nxt.append((h2, w))
                if max_states and len(pool.items) >= max_states:
                    raise env.HarnessError('bfs: state cap %d reached' % max_states)
        frontier = nxt
        pool.depth_done = d + 1
    return pool


def shape_counters(acc, cells):
    """Vacuity counters: which collision classes a state's cells contain."""
    from . import refterm as rt
    two = conflict = equal = False
    for c in cells:
        if len(c) >= 2:
            two = True
            if len(set(c)) < len(c):
                equal = True
            seen = {}
            for code in c:
                for g in rt.touches(code):
                    if g in seen and seen[g] != code:
                        conflict = True
                    seen[g] = code
    if two:
        acc.counters['states_with_overlap'] += 1
    if conflict:
        acc.counters['states_with_conflict'] += 1
    if equal:
        acc.counters['states_with_equal_pair'] += 1


# ---------------------------------------------------------------------------------------------
# standard partitioned pools (shared by the Engine-A property modules)

PARTS = 8
READ_VARIANTS = 2      # per task: so many of the deepest states are probed a second time, rebuilt with interleaved queries


def std_tasks(plan, parts=PARTS):
    """plan: list of (L, layouts, role names, depth, structural) -> task descriptors."""
    out = []
    for (L, layouts, rn, depth, struct) in plan:
        for lay in layouts:
            for k in range(parts):
                out.append({'L': L, 'layout': lay, 'roles': rn, 'depth': depth, 'struct': struct, 'part': k,
                            'parts': parts})
    return out


def std_gen(task, seed, maxlen=6):
    R = roles(seed)
    codes = [R[c] for c in task['roles']]
    cache = {}

    wide = task['layout'] in ('wide', 'wide2', 'widep')

    def gen(v, h):
        L = len(v)
        if L > maxlen and not (LONG <= L <= LONG + maxlen):
            return []
        if wide:
            # the widest mutating alphabet (C09's): every in-place method with in-range and edge arguments, so that the
            # property's probes also start from states produced by pads, clips, replaces, appends, simplify ...
            from .props import c09
            return c09.mut_alphabet(v, seed)
        ops = cache.get(L)
        if ops is None:
            ops = gen_apply_remove(L, codes)
            if task['struct']:
                ops = ops + [['cat', ['lit', 'z']], ['cat', ['ctor', 'z', R['R']]], ['rcat', ['ctor', 'z', R['R']]],
                             ['center', L + 3, '*', False, True], ['ljust', L + 1, '*', False, True],
                             ['rjust', L + 1, '*', False, False], ['slice', 1, None], ['slice', 0, -1], ['selfcat'],
                             ['assign', letters(seed + 3, L + 1)], ['assign', letters(seed + 5, max(L - 1, 0))]]
            cache[L] = ops
        return ops
    return gen


def std_pool(task, seed, acc=None):
    """BFS for one task; the task's part k expands only every parts-th first-level op, so the parts of a
    (L, layout) family together cover the whole pool (states reachable through several first ops are seen by
    several parts; the master unions the state hashes)."""
    text = letters(seed, task['L'])
    gen = std_gen(task, seed)
    part, parts = task['part'], task.get('parts', PARTS)

    # Small pools: every part runs the whole BFS (cheap) and owns the states whose canonical hash falls to it, so no
    # state is probed twice.  Large pools (depth >= 3 on longer texts): each part expands a slice of the first-level
    # operations; states reachable through several first operations are then probed by several parts.
    own_by_hash = parts > 1 and (task['depth'] <= 2 or task['L'] <= 2) and task['layout'] not in ('long',)

    def gen_part(v, h):
        ops = gen(v, h)
        if len(h) == base_len and not own_by_hash:
            return ops[part::parts]
        return ops
    if task['layout'] == 'long':
        seed_hist = [['plain', 'y' * LONG + text]]
    elif task['layout'] in ('dup1', 'dup2'):
        seed_hist = dup_hist(task['layout'], text, seed)
    elif task['layout'] in ('rs1', 'rs2'):
        seed_hist = restart_hist(task['layout'], text, seed)
    elif task['layout'] in ('rs1s', 'rs2s', 'rs1c', 'rs2c'):
        # a piece / a copy of a value with a restart point (what the piece inherits must behave like the original)
        seed_hist = restart_hist(task['layout'][:3], text + 'z', seed) + [['slice', 0, -1] if task['layout'][3] == 's' else ['copy']]
    elif task['layout'] == 'esc':
        # a base text that itself contains a complete SGR sequence (assign_str takes its text verbatim) and one that a
        # concatenation completes: characters of the text, never to be parsed again
        seed_hist = [['plain', text + 'zzzzz'], ['apply', roles(seed)['R'], 0, len(text) + 3, True],
                     ['assign', text[:1] + '\x1b[1m' + text[1:]]]
    elif task['layout'] == 'esc2':
        seed_hist = [['parse', text[:1] + '\x1b[4'], ['apply', roles(seed)['R'], 0, 2, True], ['icat', ['lit', 'm' + text[1:]]]]
    elif task['layout'] == 'widep':
        seed_hist = [['plain', text]]        # a value that came straight out of the parser (nothing applied yet)
    elif task['layout'] == 'wide':
        seed_hist = [['rainbow', text]]
    elif task['layout'] == 'wide2':
        seed_hist = [['plain', text], ['apply', roles(seed)['R'], 0, len(text), True], ['apply', roles(seed)['W'], 1, len(text), True]]
    else:
        seed_hist = [[task['layout'], text]]
    if task['layout'] in FAMILIES:
        seeds = family_hists(task['layout'], text, seed)
        seed_hist = seeds[0]
    else:
        seeds = [seed_hist]
    base_len = len(seed_hist)
    pool = bfs(seeds, gen_part, task['depth'])
    if own_by_hash:
        pool.items = [(h, v) for (h, v) in pool.items if model.canon_hash(v) % parts == part]
    elif part != 0:
        pool.items = [(h, v) for (h, v) in pool.items if len(h) > base_len]
    # A few of the deepest states once more, built with a full round of queries (operation 'read') after every step: what
    # an implementation remembers from a query is then in place when the later steps and the probes run.  Queries are
    # transparent on a correct implementation (C09 checks that in general); here every property's own probes get the chance
    # to see a remembered answer that a mutator forgot to drop.
    if task['layout'] != 'long' and pool.items:
        extra = []
        for h, _v in sorted(pool.items, key=lambda x: -len(x[0]))[:READ_VARIANTS]:
            if len(h) <= base_len:
                continue
            hr = list(h[:base_len]) + [['read']]
            for op in h[base_len:]:
                hr += [op, ['read']]
            try:
                vr = build(hr, reads=False)
                if isinstance(vr, type(_v)) and model.healthy(vr) is None:
                    extra.append((hr, vr))
            except env.HarnessError:
                raise
            except Exception:  # noqa
                pass            # (a query that raises on a value built by successful operations is C09's finding)
        pool.items = list(pool.items) + extra
        if acc is not None:
            acc.counters['states_rebuilt_with_reads'] += len(extra)
    if acc is not None:
        acc.counters['quarantined'] += pool.quarantined
        acc.counters['generator_transitions'] += pool.transitions
    return pool


FAMILIES = ('tri', 'trix', 'triw', 'pairs')


def family_hists(kind, text, seed):
    """Layout families = many start states at once (all of one shape, enumerated exhaustively):
    tri / trix / triw: every triple of ranges, three settings applied in a fixed order - three different groups (R, W, U),
    the conflict pattern X, Y, X (R, B, R) and the duplicate pattern W, R, W: quantity-dependent behaviour (three settings
    on a character, three overlapping ranges, two of three ending together);
    pairs: every character carries its own foreground and background, applied in either order (2^L orders): every change
    point changes the same two effects, in differing code orders."""
    import itertools
    R = roles(seed)
    L = len(text)
    if kind == 'pairs':
        out = []
        for mask in range(2 ** L):
            h = [['plain', text]]
            for i in range(L):
                fg, bg = FG1[(i + seed) % len(FG1)], str(41 + (i + seed) % 7)
                for c in ((fg, bg) if not (mask >> i) & 1 else (bg, fg)):
                    h.append(['apply', c, i, i + 1, True])
            out.append(h)
        return out
    a, b, c = {'tri': (R['R'], R['W'], R['U']), 'trix': (R['R'], R['B'], R['R']), 'triw': (R['W'], R['R'], R['W'])}[kind]
    rg = ranges(L)
    return [[['plain', text], ['apply', a, r1[0], r1[1], True], ['apply', b, r2[0], r2[1], True], ['apply', c, r3[0], r3[1], True]]
            for r1, r2, r3 in itertools.product(rg, repeat=3)]


def plan_override(pid, default):
    """Investigation aid: VERIF_PLAN_<ID>='[[2, ["plain"], "RBWN", 3, false]]' replaces a check's pool plan."""
    import json
    import os
    v = os.environ.get('VERIF_PLAN_' + pid)
    if not v:
        return default
    return [(p[0], tuple(p[1]), p[2], p[3], p[4]) for p in json.loads(v)]


def dup_hist(kind, text, seed):
    """Histories of values in which ONE setting object is active twice for a stretch: copies share setting objects,
    and the seam merge of a self-concatenation continues the left part's object into the right part."""
    R = roles(seed)
    t = text[:3] if len(text) >= 3 else (text + 'xyz')[:3]
    if kind == 'dup1':
        return [['plain', t[:1]], ['icat', ['ctor', t[1:3], R['W']]], ['apply', R['W'], 0, 2, True], ['iselfcat']]
    return [['plain', t[:2]], ['apply', R['R'], 1, 2, True], ['apply', R['R'], 0, 2, True], ['selfcat']]


def restart_hist(kind, text, seed):
    """Histories of values that contain a point where an active setting is merely stopped and restarted (leftovers
    of apply_formatting(topmost=False) + remove_formatting, or of removing a lower setting from a sub-range)."""
    R = roles(seed)
    L = len(text)
    p = max(1, L // 2)
    if kind == 'rs1':
        return [['plain', text], ['apply', R['R'], 0, L, True], ['apply', R['W'], p, min(L, p + 1), False], ['remove', R['W'], p, min(L, p + 1)]]
    return [['plain', text], ['apply', R['R'], 0, L, True], ['apply', R['B'], 0, L, True], ['remove', R['R'], 0, p]]
