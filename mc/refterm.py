"""Reference SGR terminal, written from ECMA-48 / the property statements.

Does NOT import the library.  15 effect groups + reset.  A style state is a
dict group -> tuple of ints (the parameter group that set it); the default
state is the empty dict.  `freeze` turns it into a hashable sorted tuple.
"""
import re

ESC = '\x1b'

GROUPS = ('bold', 'italic', 'ul', 'blink', 'swap', 'hide', 'strike', 'font',
          'spacing', 'box', 'over', 'fg', 'bg', 'ulc')
# note: 'bold' covers bold/faint (1,2 / 22); that makes 14 names + nothing else.
# The statement counts 15 groups including RESET as a pseudo group.

SET = {}
CLEAR = {}
for _c in (1, 2):
    SET[_c] = 'bold'
CLEAR[22] = 'bold'
SET[3] = 'italic'; CLEAR[23] = 'italic'
SET[4] = 'ul'; SET[21] = 'ul'; CLEAR[24] = 'ul'
SET[5] = 'blink'; SET[6] = 'blink'; CLEAR[25] = 'blink'
SET[7] = 'swap'; CLEAR[27] = 'swap'
SET[8] = 'hide'; CLEAR[28] = 'hide'
SET[9] = 'strike'; CLEAR[29] = 'strike'
for _c in range(11, 21):
    SET[_c] = 'font'
CLEAR[10] = 'font'
SET[26] = 'spacing'; CLEAR[50] = 'spacing'
SET[51] = 'box'; SET[52] = 'box'; CLEAR[54] = 'box'
SET[53] = 'over'; CLEAR[55] = 'over'
for _c in list(range(30, 38)) + list(range(90, 98)):
    SET[_c] = 'fg'
CLEAR[39] = 'fg'
for _c in list(range(40, 48)) + list(range(100, 108)):
    SET[_c] = 'bg'
CLEAR[49] = 'bg'
CLEAR[59] = 'ulc'
EXT = {38: 'fg', 48: 'bg', 58: 'ulc'}

KNOWN_CODES = set(SET) | set(CLEAR) | set(EXT) | {0}


def freeze(state):
    return tuple(sorted(state.items()))


DEFAULT = ()


def dirty_state():
    """Every group pre-set to a sentinel value (for the reset_start clause)."""
    return {g: (-1,) for g in GROUPS}


_int_re = re.compile(r'^[0-9]+$')


def split_params(params):
    """Split a parameter string into tokens.  Returns (tokens, ambiguous).

    tokens: ints, or None for an empty parameter, or the raw string for a
    non-decimal one.  ambiguous is True when a conforming terminal's reading is
    not pinned down by the statement (empty parameter inside a non-empty list,
    non-decimal parameter)."""
    if params == '':
        return [0], False
    toks = []
    amb = False
    for p in params.split(';'):
        if _int_re.match(p):
            toks.append(int(p))
        elif p == '':
            toks.append(None)
            amb = True
        else:
            toks.append(p)
            amb = True
    return toks, amb


def apply_codes(state, toks):
    """Apply a token list (from split_params) left to right to `state` (mutated).

    Returns (ambiguous, touched) where touched is the list of
    (group|'*', kind) effects in order (kind in 'set','clear','reset')."""
    amb = False
    touched = []
    groups = []      # reference grouping: the parameter groups that took effect, in order
    dropped = False  # something in the list contributed nothing (unknown code, incomplete group)
    i = 0
    n = len(toks)
    while i < n:
        c = toks[i]
        if c is None:
            # empty parameter: ECMA-48 default value 0 = reset (flagged ambiguous by split_params)
            state.clear()
            touched.append(('*', 'reset'))
            groups.append((0,))
            i += 1
            continue
        if not isinstance(c, int):
            dropped = True
            i += 1
            continue
        if c == 0:
            state.clear()
            touched.append(('*', 'reset'))
            groups.append((0,))
            i += 1
        elif c in SET:
            state[SET[c]] = (c,)
            touched.append((SET[c], 'set'))
            groups.append((c,))
            i += 1
        elif c in CLEAR:
            state.pop(CLEAR[c], None)
            touched.append((CLEAR[c], 'clear'))
            groups.append((c,))
            i += 1
        elif c in EXT:
            g = EXT[c]
            if i + 1 >= n:
                # bare introducer at the very end: contributes nothing
                dropped = True
                i += 1
            elif toks[i + 1] == 5:
                if i + 2 >= n:
                    dropped = True
                    i = n  # incomplete group: dropped
                else:
                    v = toks[i + 2]
                    if isinstance(v, int) and 0 <= v <= 255:
                        state[g] = (c, 5, v)
                        touched.append((g, 'set'))
                        groups.append((c, 5, v))
                    else:
                        amb = True
                    i += 3
            elif toks[i + 1] == 2:
                if i + 4 >= n:
                    dropped = True
                    i = n  # incomplete group: dropped
                else:
                    vs = toks[i + 2:i + 5]
                    if all(isinstance(v, int) and 0 <= v <= 255 for v in vs):
                        state[g] = (c, 2) + tuple(vs)
                        touched.append((g, 'set'))
                        groups.append((c, 2) + tuple(vs))
                    else:
                        amb = True
                    i += 5
            else:
                # introducer followed by something that is neither 5 nor 2:
                # "drop 38 only" or "drop 38 and the next" - not pinned down
                amb = True
                i += 1
        else:
            dropped = True
            i += 1  # unknown code: ignored
    apply_codes.last = (groups, dropped)
    return amb, touched


def ref_groups(params):
    """Reference reading of a parameter string: (list of int tuples that take effect in order, state,
    ambiguous, dropped)."""
    st = {}
    toks, amb = split_params(params)
    amb2, _ = apply_codes(st, toks)
    groups, dropped = apply_codes.last
    return groups, freeze(st), (amb or amb2), dropped


_reduce_cache = {}


def reduce_params(params, init=None):
    """Terminal state (frozen) after one SGR parameter string, from `init`
    (a frozen state, default the default state).  Returns (frozen, ambiguous)."""
    key = (params, init)
    r = _reduce_cache.get(key)
    if r is None:
        st = dict(init) if init else {}
        toks, amb = split_params(params)
        amb2, _ = apply_codes(st, toks)
        r = (freeze(st), amb or amb2)
        if len(_reduce_cache) < 400000:
            _reduce_cache[key] = r
    return r


def reduce_cell(codes, init=None):
    """Effective style of a character that reports the settings `codes`
    (strings, bottom to top): what a terminal shows after ESC[<c1;c2;...>m."""
    if not codes:
        return (freeze(dict(init)) if init else DEFAULT), False
    return reduce_params(';'.join(codes), init)


_touch_cache = {}


def touches(code):
    """Set of groups a setting text touches ('*' = all, for reset)."""
    r = _touch_cache.get(code)
    if r is None:
        toks, _ = split_params(code)
        _, touched = apply_codes({}, toks)
        r = frozenset(g for g, _k in touched)
        _touch_cache[code] = r
    return r


_sgr_re = re.compile('\x1b\\[([^\x40-\x7e]*)m')


def strip_sgr(s):
    return _sgr_re.sub('', s)


def find_sgr(s):
    """List of (start, end, params) of every ESC [ params m in s, the way the
    statement of C02/C19 defines a sequence: ESC [ then any characters outside
    0x40-0x7E then the final byte; only final byte 'm' is SGR."""
    out = []
    i = 0
    n = len(s)
    while i < n:
        if s[i] == ESC and i + 1 < n and s[i + 1] == '[':
            j = i + 2
            while j < n and not ('\x40' <= s[j] <= '\x7e'):
                j += 1
            if j < n and s[j] == 'm':
                out.append((i, j + 1, s[i + 2:j]))
                i = j + 1
                continue
            if j < n:
                # other control sequence: text, consumed as a whole
                i = j + 1
                continue
            break
        i += 1
    return out


class Display:
    __slots__ = ('chars', 'styles', 'final', 'n_sgr', 'ambiguous', 'first_sgr', 'first_is_reset')


def interpret(s, init=None):
    """Run the terminal over s.  Returns a Display: chars (str), styles (list of
    frozen states, one per displayed char), final (frozen), n_sgr, ambiguous,
    first_sgr = (pos_in_output, params) of the first SGR sequence or None."""
    d = Display()
    state = dict(init) if init else {}
    chars = []
    styles = []
    amb = False
    pos = 0
    seqs = find_sgr(s)
    d.n_sgr = len(seqs)
    d.first_sgr = (seqs[0][0], seqs[0][2]) if seqs else None
    cur = freeze(state)
    for (a, b, params) in seqs:
        if a > pos:
            seg = s[pos:a]
            chars.append(seg)
            styles.extend([cur] * len(seg))
        for ch in params:
            if not ('0' <= ch <= '9' or ch == ';'):
                amb = True
        toks, a1 = split_params(params)
        a2, _ = apply_codes(state, toks)
        amb = amb or a1 or a2
        cur = freeze(state)
        pos = b
    if pos < len(s):
        seg = s[pos:]
        chars.append(seg)
        styles.extend([cur] * len(seg))
    d.chars = ''.join(chars)
    d.styles = styles
    d.final = cur
    d.ambiguous = amb
    return d


def admissible_states(params, init=None):
    """All terminal states a conforming terminal may reach on a parameter string whose reading the statement does
    not pin down at '38;x' (x not 2 or 5): either only the introducer is dropped, or the introducer and x.
    Returns a set of frozen states, or None when the string is ambiguous for another reason (empty / non-decimal
    parameter, colour component > 255) - those stay excluded."""
    toks, amb = split_params(params)
    if amb:
        return None
    out = set()
    bad = [False]

    def walk(i, state):
        n = len(toks)
        while i < n:
            c = toks[i]
            if c == 0:
                state = {}
                i += 1
            elif c in SET:
                state = dict(state)
                state[SET[c]] = (c,)
                i += 1
            elif c in CLEAR:
                state = dict(state)
                state.pop(CLEAR[c], None)
                i += 1
            elif c in EXT:
                g = EXT[c]
                if i + 1 >= n:
                    i += 1
                elif toks[i + 1] == 5:
                    if i + 2 >= n:
                        i = n
                    else:
                        v = toks[i + 2]
                        if not (0 <= v <= 255):
                            bad[0] = True
                            return
                        state = dict(state)
                        state[g] = (c, 5, v)
                        i += 3
                elif toks[i + 1] == 2:
                    if i + 4 >= n:
                        i = n
                    else:
                        vs = toks[i + 2:i + 5]
                        if not all(0 <= v <= 255 for v in vs):
                            bad[0] = True
                            return
                        state = dict(state)
                        state[g] = (c, 2) + tuple(vs)
                        i += 5
                else:
                    walk(i + 1, dict(state))      # reading 1: drop the introducer only
                    walk(i + 2, dict(state))      # reading 2: drop the introducer and the next parameter
                    return
            else:
                i += 1
        out.add(freeze(state))
    walk(0, dict(init) if init else {})
    if bad[0]:
        return None
    return out
