"""Reference model of a value: per-character cells, the abstraction function,
the equivalence the properties promise, canonical form, universal probes."""
import hashlib
from . import env
from . import refterm as rt
from .env import AnsiString, AnsiStr, AnsiSetting

# ---------------------------------------------------------------------------------------------
# abstraction function


def base(v):
    """The mutable AnsiString behind v (v itself, or an AnsiStr's content) - read only."""
    return v


def content(v):
    """The AnsiString behind a value through the public API only: an AnsiString is returned as is, an AnsiStr is
    converted with the documented constructor AnsiString(<AnsiStr>) (C13/C08 check that conversion)."""
    return v if isinstance(v, AnsiString) else AnsiString(v)


def alpha(v):
    """(text, cells) with cells[i] = tuple of (uid, code) bottom-to-top, through the public API."""
    text = v.base_str
    ids = {}
    cells = []
    for i in range(len(text)):
        cell = []
        for x in v.ansi_settings_at(i):
            k = id(x)
            if k not in ids:
                ids[k] = len(ids)
            cell.append((ids[k], str(x)))
        cells.append(tuple(cell))
    return text, cells


def codes_of(cell):
    return tuple(c for _u, c in cell)


def alpha_codes(v):
    """(text, list of code tuples) - no identities."""
    text = v.base_str
    return text, [tuple(str(x) for x in v.ansi_settings_at(i)) for i in range(len(text))]


# ---------------------------------------------------------------------------------------------
# equivalence  (same settings, same precedence among conflicting settings)

_nf_cache = {}


def cell_nf(codes):
    """Normal form of a code tuple: (sorted multiset, per-group subsequences).
    Two cells are equivalent iff their normal forms are equal."""
    r = _nf_cache.get(codes)
    if r is None:
        per = {}
        for c in codes:
            t = rt.touches(c)
            if '*' in t:
                gs = rt.GROUPS
            else:
                gs = t
            for g in gs:
                per.setdefault(g, []).append(c)
        r = (tuple(sorted(codes)), tuple(sorted((g, tuple(l)) for g, l in per.items())))
        if len(_nf_cache) < 500000:
            _nf_cache[codes] = r
    return r


def cells_equiv(a, b):
    """a, b: lists of code tuples."""
    if len(a) != len(b):
        return False
    for x, y in zip(a, b):
        if x != y and cell_nf(x) != cell_nf(y):
            return False
    return True


def first_diff(a, b):
    if len(a) != len(b):
        return 'length %d != %d' % (len(a), len(b))
    for i, (x, y) in enumerate(zip(a, b)):
        if x != y and cell_nf(x) != cell_nf(y):
            return 'char %d: got %s expected %s' % (i, list(x), list(y))
    return None


def style_of(codes):
    return rt.reduce_cell(codes)[0]


# ---------------------------------------------------------------------------------------------
# canonical form of the concrete object graph


_PT = None


def _canon_fast(v):
    """Fast path for the representation at hand (AnsiString{_s,_fmts: {int: point{add,rem}}}); returns None
    when the object does not look like that, and the generic walker takes over."""
    d = v.__dict__
    if len(d) != 2 or '_s' not in d or '_fmts' not in d:
        return None
    fm = d['_fmts']
    if type(fm) is not dict:
        return None
    ids = {}
    out = [d['_s']]
    for k in sorted(fm):
        p = fm[k]
        pd = p.__dict__
        if len(pd) != 2:
            return None
        try:
            add, rem = pd['add'], pd['rem']
        except KeyError:
            return None
        if type(add) is not list or type(rem) is not list:
            return None
        ra = []
        for x in add:
            i = id(x)
            if i not in ids:
                ids[i] = len(ids)
            ra.append((ids[i], x._str))
        rr = []
        for x in rem:
            i = id(x)
            if i not in ids:
                ids[i] = len(ids)
            rr.append((ids[i], x._str))
        out.append((k, tuple(ra), tuple(rr)))
    return tuple(out)


def canon(v):
    if type(v) is AnsiString:
        try:
            c = _canon_fast(v)
        except Exception:  # noqa
            c = None
        if c is not None:
            return c
    return canon_generic(v)


def canon_generic(v):
    """Structural serialisation of the object graph behind v with setting identities renamed by
    first visit.  Exact: equal canon <=> isomorphic object graphs."""
    ids = {}

    def ser(o, depth=0):
        if depth > 8:
            raise env.HarnessError('canon: object graph too deep')
        if isinstance(o, AnsiStr):
            # (an AnsiStr IS a str: look at it before the scalar case) payload + content
            return ('AnsiStr', str.__str__(o), ser(o.__dict__.get('_s'), depth + 1))
        if o is None or isinstance(o, (bool, int, str, float)):
            return o
        if isinstance(o, AnsiSetting):
            k = id(o)
            if k not in ids:
                ids[k] = len(ids)
            return ('S', ids[k], str(o))
        if isinstance(o, (list, tuple)):
            return tuple(ser(x, depth + 1) for x in o)
        if isinstance(o, dict):
            return ('D',) + tuple(sorted(((ser(k, depth + 1), ser(o[k], depth + 1)) for k in o), key=repr))
        if isinstance(o, (set, frozenset)):
            return ('SET',) + tuple(sorted((ser(x, depth + 1) for x in o), key=repr))
        if isinstance(o, (bytes, bytearray, complex, range)):
            return (type(o).__name__, repr(o))
        import enum
        if isinstance(o, enum.Enum):
            return ('E', type(o).__name__, o.name)
        d = getattr(o, '__dict__', None)
        if d is None:
            # __slots__ classes: collect the slots of the whole MRO
            names = []
            for klass in type(o).__mro__:
                sl = getattr(klass, '__slots__', ())
                names.extend([sl] if isinstance(sl, str) else list(sl))
            if names:
                d = {k: getattr(o, k) for k in names if hasattr(o, k)}
        if d is not None:
            return (type(o).__name__,) + tuple((k, ser(d[k], depth + 1)) for k in sorted(d)
                                                if k not in ('_valid', '_parsable'))
        # anything else (a compiled pattern, a function, an iterator ... kept by an implementation for its own purposes): its
        # type, and its repr when that does not contain an address
        r = repr(o)
        return ('OBJ', type(o).__name__, r if ' at 0x' not in r else '')

    return ser(v)


def chash(c):
    return int.from_bytes(hashlib.blake2b(repr(c).encode('utf-8', 'surrogatepass'), digest_size=8).digest(), 'big')


def canon_hash(v):
    return chash(canon(v))


# ---------------------------------------------------------------------------------------------
# snapshots (C08 and friends)

FLAGS = [(o, rs, re_) for o in (True, False) for rs in (False, True) for re_ in (True, False)]


def renderings(v):
    return tuple(v.to_str(optimize=o, reset_start=rs, reset_end=re_) for (o, rs, re_) in FLAGS)


def snapshot(v):
    """Everything observable about a value (text, ordered cells, canonical graph, renderings)."""
    t, cells = alpha_codes(v)
    return (type(v).__name__, t, tuple(cells), canon(v), renderings(v))


# ---------------------------------------------------------------------------------------------
# observable state ("unchanged" in the properties means: what a caller can observe is unchanged; internal
# caches or lazily normalised tables are the library's own business, so the exact canonical form is NOT used
# for these clauses)


def observe(v):
    """text, identity-renamed ordered cells, two renderings (optimised / unoptimised with a leading reset) and, for
    an AnsiStr, its str payload.  A value that can no longer be read is an observation of its own."""
    try:
        t, cells = alpha(v)          # AnsiStr offers the same query / rendering methods
        out = (type(v).__name__, t, tuple(cells), v.to_str(), v.to_str(optimize=False, reset_start=True, reset_end=False))
        if isinstance(v, AnsiStr):
            out += (str.__str__(v),)
        return out
    except env.HarnessError:
        raise
    except Exception as e:  # noqa
        return ('unreadable', 'reading it raises %s: %s' % (type(e).__name__, e))


def query_vector(v):
    """Everything a caller can ask a value (beyond observe()): flags, searches, pieces, padded renderings, iteration."""
    try:
        t = v.base_str
        codes = []
        for i in range(len(t)):
            for s_ in v.ansi_settings_at(i):
                if str(s_) not in codes:
                    codes.append(str(s_))
        finds = tuple(v.find_settings(AnsiSetting(c), reverse=r) for c in codes[:3] for r in (False, True))
        return (observe(v), v.is_formatting_valid(), v.is_formatting_parsable(), v.is_optimizable(), finds, len(v),
                tuple(str(ch) for ch in v), str(v[1:]) if len(t) > 1 else '', str(v[:-1]) if len(t) > 1 else '',
                format(v, '*>%d' % (len(t) + 2)), v.to_str(reset_start=True), tuple(str(x) for x in v.split()), str(v.upper()))
    except env.HarnessError:
        raise
    except Exception as e:  # noqa
        return ('unreadable', 'querying it raises %s: %s' % (type(e).__name__, e))


def freeze_value(v):
    """Observation + an independent deep copy to compare with == later (the property names ==)."""
    import copy
    cp = None
    if not isinstance(v, AnsiStr):      # (copy.deepcopy re-parses an AnsiStr's payload; its == is a payload comparison,
        try:                            #  which observe() already records)
            cp = copy.deepcopy(v)
        except Exception:  # noqa
            cp = None
    return (observe(v), cp)


def unchanged(v, frozen):
    if observe(v) != frozen[0]:
        return False
    if frozen[1] is not None:
        try:
            if not (v == frozen[1]):
                return False
        except Exception:  # noqa
            return False
    return True


def describe_obs(o):
    return repr(o[1:3])[:300]


# ---------------------------------------------------------------------------------------------
# universal probes

PROBE_CODE = '95'   # a colour no palette role uses


def self_check(v, deep=False):
    """Library's own consistency check + every query/rendering must work.  Returns None or text."""
    try:
        s = v
        # walk every change point under WITH_ASSERTIONS through the public API (find_settings visits all of them);
        # the internal iterator is used as well while the representation offers it
        s.find_settings(AnsiSetting(PROBE_CODE), 0, None)
        try:
            it = env.lib_mod._AnsiSettingsIterator(s._fmts)
        except AttributeError:
            it = ()
        for _ in it:
            pass
        n = len(s)
        for i in (range(n) if n <= 64 else list(range(8)) + list(range(n - 8, n))):
            s.ansi_settings_at(i)
        if deep:
            renderings(s)
        else:
            s.to_str()
            s.to_str(optimize=False, reset_start=True)
    except Exception as e:  # noqa
        return 'self-check raised %s: %s' % (type(e).__name__, e)
    return None


def closed_check(v):
    """Closedness: text appended to v keeps only its own style, and v's characters keep theirs.
    Returns None or a description."""
    try:
        if len(v) > 64:
            return closed_check_long(v)
        t, cells = alpha_codes(v)
        w = v + 'x'
        t2, c2 = alpha_codes(w)
        if t2 != t + 'x':
            return "v+'x' has text %r" % t2
        if c2[-1] != ():
            return "appended plain 'x' reports settings %s" % list(c2[-1])
        if not cells_equiv(c2[:-1], cells):
            return "v+'x' changed v's characters: " + first_diff(c2[:-1], cells)
        w = v + AnsiString('x', AnsiSetting(PROBE_CODE))
        t2, c2 = alpha_codes(w)
        if c2[-1] != (PROBE_CODE,):
            return "appended styled 'x' reports settings %s" % list(c2[-1])
        if not cells_equiv(c2[:-1], cells):
            return "v+styled x changed v's characters: " + first_diff(c2[:-1], cells)
        err = self_check(w)
        if err:
            return 'after append: ' + err
    except Exception as e:  # noqa
        return 'closedness probe raised %s: %s' % (type(e).__name__, e)
    return None


def closed_check_long(v):
    """Closedness for long values (huge pads): only the seam and both ends are read."""
    n = len(v)
    w = v + 'x'
    if w.base_str != v.base_str + 'x':
        return "v+'x' has the wrong text"
    if [str(x) for x in w.ansi_settings_at(n)] != []:
        return "appended plain 'x' reports settings %s" % [str(x) for x in w.ansi_settings_at(n)]
    for i in (0, 1, n // 2, n - 2, n - 1):
        if tuple(str(x) for x in w.ansi_settings_at(i)) != tuple(str(x) for x in v.ansi_settings_at(i)):
            return "v+'x' changed v's character %d" % i
    return self_check(w)


def healthy(v):
    """Both probes; None when the value is consistent."""
    return self_check(v) or closed_check(v)


# ---------------------------------------------------------------------------------------------
# render probe (C01 oracle, also used as a cheap sanity probe elsewhere)


def render_check(v, flags=FLAGS, dirty=True):
    """Interpret every rendering with the reference terminal.  Returns list of (clause, detail)."""
    out = []
    text, cells = alpha_codes(v)
    want = [style_of(c) for c in cells]
    dirty_init = rt.freeze(rt.dirty_state())
    for (o, rs, re_) in flags:
        try:
            s = v.to_str(optimize=o, reset_start=rs, reset_end=re_)
        except Exception as e:  # noqa
            out.append(('render-raises', 'to_str(optimize=%s,reset_start=%s,reset_end=%s) raised %s: %s'
                        % (o, rs, re_, type(e).__name__, e)))
            continue
        tag = 'optimize=%s,reset_start=%s,reset_end=%s -> %r' % (o, rs, re_, s)
        d = rt.interpret(s)
        if d.chars != text:
            out.append(('render-text', 'displayed %r, base_str %r; %s' % (d.chars, text, tag)))
            continue
        if d.styles != want:
            k = next(i for i in range(len(want)) if d.styles[i] != want[i])
            out.append(('render-style', 'char %d displays %s but reports %s = %s; %s'
                        % (k, d.styles[k], list(cells[k]), want[k], tag)))
        if rs:
            fs = d.first_sgr
            if fs is None or fs[0] != 0 or fs[1].split(';')[0] not in ('', '0'):
                out.append(('reset-start-missing', 'output does not begin with a reset; ' + tag))
            if dirty:
                d2 = rt.interpret(s, dirty_init)
                if d2.styles != d.styles or d2.final != d.final:
                    out.append(('reset-start-prior-state', 'display depends on prior terminal state; ' + tag))
        if re_ and d.n_sgr and d.final != rt.DEFAULT:
            out.append(('reset-end', 'terminal left in %s; %s' % (d.final, tag)))
        if re_ and dirty and rs and d.n_sgr:
            pass
    return out
