#!/bin/sh
# tools/run_seeded_par.sh [N] [glob]: re-verify kept seeded changes against the current tree, N at a time (default 3);
# one RESULT line each -> seeded/RESULTS.txt; folds the results into each meta.json
cd "$(dirname "$0")/.." || exit 2
n=${1:-3}; pat=${2:-'seeded/C*/'}
ls -d $pat | xargs -P "$n" -I{} sh -c '/venv/bin/python tools/seeded.py {} 2>&1 | grep -E "^(RESULT|PATCH)" | cut -c1-300' > seeded/RESULTS.partial.txt
sort seeded/RESULTS.partial.txt > seeded/RESULTS.txt; rm -f seeded/RESULTS.partial.txt
python3 tools/fold_meta.py $pat > /dev/null
grep -c "^RESULT" seeded/RESULTS.txt
grep -E "caught_by=\[\]|PATCH" seeded/RESULTS.txt
