#!/bin/sh
# re-verify every kept seeded change against the current tree; one RESULT line each -> seeded/RESULTS.txt
cd "$(dirname "$0")/.." || exit 2
: > seeded/RESULTS.txt
for d in seeded/C*/; do
  /venv/bin/python tools/seeded.py "$d" 2>&1 | grep -E "^(suite|demo|RESULT|C[0-9]+ exit|PATCH)" | cut -c1-300 >> seeded/RESULTS.txt
  rm -f "$d/last_run.json"
done
grep -c "^RESULT" seeded/RESULTS.txt
