#!/bin/sh
# tools/collect.sh <suffix> <ids...>: copy finished sub-agent outputs /tmp/wt/<ID><suffix>-out into seeded/<ID>_<suffix> and run the checks
cd "$(dirname "$0")/.." || exit 2
suf=$1; shift; WAVE=${WAVE:-"2 (given the property text, a scratch worktree and a note which site an earlier attempt had already changed)"}
for id in "$@"; do
  src=/tmp/wt/${id}${suf}-out
  [ -f $src/patch.diff ] && [ -f $src/demo.py ] || { echo "$id: not ready"; continue; }
  d=seeded/${id}_${suf}; mkdir -p $d
  cp $src/patch.diff $src/demo.py $d/; cp $src/notes.md $d/ 2>/dev/null
  [ -f $d/meta.json ] || echo "{\"property\": \"$id\", \"run_checks\": [\"$id\"], \"origin\": \"independent sub-agent, wave '"$WAVE"'\"}" > $d/meta.json
  /venv/bin/python tools/seeded.py $d 2>&1 | grep -E "^(suite|demo|RESULT|C[0-9]+ exit|PATCH)" | cut -c1-420
done
