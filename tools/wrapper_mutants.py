#!/venv/bin/python
"""tools/wrapper_mutants.py [--jobs N] [--only NAME]: mechanical mutation of the AnsiStr wrapper layer.

Every method of class AnsiStr forwards to an AnsiString method.  For every forwarding call inside such a wrapper this
tool generates the classic forwarding slips
  drop:<arg>      one forwarded argument (positional or keyword, `inplace` excepted) is not passed on
  swap            the first two positional arguments are exchanged
  sibling:<name>  the sibling method is called instead (find/rfind, lstrip/rstrip, lower/upper, ...)
  nocopy          `cpy = self._s.copy()` becomes `cpy = self._s` (the receiver's own object is edited in place)
applies each to a scratch copy of /repo (src + tests), keeps those on which the repository's own suite still passes,
and runs the checks C13 (twin equivalence) and C10 / C11 / C08 against it.  Output: mutants/wrappers/RESULTS.txt, one
line per mutant (killed by the suite | caught by <checks> | SURVIVED).  Nothing is written to /repo."""
import argparse
import ast
import concurrent.futures
import os
import shutil
import subprocess
import sys

VERIF = os.path.dirname(os.path.dirname(os.path.abspath(__file__)))
SRC = '/repo/src/ansi_string/ansi_string.py'
SIB = {'find': 'rfind', 'rfind': 'find', 'index': 'rindex', 'rindex': 'index', 'lstrip': 'rstrip', 'rstrip': 'lstrip',
       'lower': 'upper', 'upper': 'lower', 'ljust': 'rjust', 'rjust': 'ljust', 'split': 'rsplit', 'rsplit': 'split',
       'partition': 'rpartition', 'rpartition': 'partition', 'removeprefix': 'removesuffix', 'removesuffix': 'removeprefix',
       'isalpha': 'isalnum', 'isdigit': 'isdecimal', 'isdecimal': 'isdigit', 'islower': 'isupper', 'isupper': 'islower',
       'capitalize': 'title', 'title': 'capitalize', 'casefold': 'lower', 'swapcase': 'upper', 'startswith': 'endswith',
       'endswith': 'startswith', 'format_matching': 'unformat_matching', 'unformat_matching': 'format_matching',
       'apply_formatting': 'remove_formatting', 'settings_at': 'ansi_settings_at', 'is_formatting_valid': 'is_formatting_parsable',
       'is_formatting_parsable': 'is_formatting_valid', 'is_optimizable': 'is_formatting_parsable', 'strip': 'lstrip',
       'center': 'ljust', 'isspace': 'isprintable', 'isnumeric': 'isdigit', 'istitle': 'isupper', 'isascii': 'isalnum',
       'isidentifier': 'isalpha', 'isprintable': 'isascii', 'isalnum': 'isalpha', 'count': 'find'}


def mutants():
    src = open(SRC).read()
    lines = src.splitlines(True)
    offs = [0]
    for l in lines:
        offs.append(offs[-1] + len(l))

    def pos(node_line, col):
        return offs[node_line - 1] + len(lines[node_line - 1].encode()[:col].decode())

    def seg(n):
        return pos(n.lineno, n.col_offset), pos(n.end_lineno, n.end_col_offset)
    tree = ast.parse(src)
    cls = [n for n in tree.body if isinstance(n, ast.ClassDef) and n.name == 'AnsiStr'][0]
    out = []
    for fn in cls.body:
        if not isinstance(fn, ast.FunctionDef):
            continue
        for node in ast.walk(fn):
            if isinstance(node, ast.Assign) and isinstance(node.value, ast.Call) and ast.unparse(node.value) == 'self._s.copy()':
                a, b = seg(node.value)
                out.append(('%s/nocopy' % fn.name, src[:a] + 'self._s' + src[b:]))
            if not (isinstance(node, ast.Call) and isinstance(node.func, ast.Attribute)):
                continue
            recv = ast.unparse(node.func.value)
            if recv not in ('cpy', 'self._s', 'AnsiString'):
                continue
            meth = node.func.attr
            if meth == 'copy':
                continue
            args = [(a_, None) for a_ in node.args] + [(k.value, k.arg) for k in node.keywords]
            for i, (a_, kw) in enumerate(args):
                if kw == 'inplace':
                    continue
                rest = [x for j, x in enumerate(args) if j != i]
                text = ', '.join((('%s=' % k) if k else '') + ast.unparse(v) for v, k in rest)
                a, b = seg(node)
                new_call = '%s.%s(%s)' % (recv, meth, text)
                out.append(('%s/%s/drop:%s' % (fn.name, meth, kw or ast.unparse(a_)), src[:a] + new_call + src[b:]))
            if len(node.args) >= 2 and not any(isinstance(x, ast.Starred) for x in node.args[:2]):
                sw = [node.args[1], node.args[0]] + list(node.args[2:])
                text = ', '.join([ast.unparse(x) for x in sw] + ['%s=%s' % (k.arg, ast.unparse(k.value)) for k in node.keywords])
                a, b = seg(node)
                out.append(('%s/%s/swap' % (fn.name, meth), src[:a] + '%s.%s(%s)' % (recv, meth, text) + src[b:]))
            if meth in SIB:
                a, b = seg(node.func)
                out.append(('%s/%s/sibling:%s' % (fn.name, meth, SIB[meth]), src[:a] + '%s.%s' % (recv, SIB[meth]) + src[b:]))
    return out


def sh(cmd, cwd=None, env=None, timeout=3600):
    p = subprocess.run(cmd, shell=True, cwd=cwd, env=env, stdout=subprocess.PIPE, stderr=subprocess.STDOUT, timeout=timeout)
    return p.returncode, p.stdout.decode(errors='replace')


def run_one(item):
    name, text = item
    scratch = '/tmp/wrapmut/%s-%d' % (name.replace('/', '_').replace(':', '-').replace('*', 'star'), os.getpid())
    shutil.rmtree(scratch, ignore_errors=True)
    os.makedirs(scratch)
    try:
        for sub in ('src', 'tests'):
            shutil.copytree(os.path.join('/repo', sub), os.path.join(scratch, sub), ignore=shutil.ignore_patterns('__pycache__', '*.egg-info'))
        open(os.path.join(scratch, 'src/ansi_string/ansi_string.py'), 'w').write(text)
        rc, out = sh('/venv/bin/python -c "import sys; sys.path.insert(0, \'src\'); import ansi_string"', cwd=scratch)
        if rc:
            return name, 'does not import'
        rc, out = sh('/venv/bin/python -m pytest -q -p no:cacheprovider -x 2>&1 | tail -1', cwd=scratch)
        if ' passed' not in out or 'failed' in out or 'error' in out.lower():
            return name, 'killed by the suite'
        env = dict(os.environ, VERIF_REPO=scratch, VERIF_OUT=scratch + '-out', PYTHONHASHSEED='0', VERIF_JOBS='4')
        caught = []
        for c in ('C13', 'C10', 'C11', 'C08'):
            rc, out = sh('./check %s --tier quick' % c, cwd=VERIF, env=env)
            if rc == 1:
                caught.append(c)
                if c == 'C13':
                    break               # the twin check is the one responsible for this layer
            elif rc != 0:
                caught.append(c + ':exit%d' % rc)
        return name, ('caught by ' + ','.join(caught)) if caught else 'SURVIVED'
    finally:
        shutil.rmtree(scratch, ignore_errors=True)
        shutil.rmtree(scratch + '-out', ignore_errors=True)


def main():
    ap = argparse.ArgumentParser()
    ap.add_argument('--jobs', type=int, default=4)
    ap.add_argument('--only', default=None)
    ap.add_argument('--list', action='store_true')
    a = ap.parse_args()
    ms = mutants()
    if a.only:
        ms = [m for m in ms if a.only in m[0]]
    if a.list:
        for n, _ in ms:
            print(n)
        print(len(ms))
        return 0
    os.makedirs(os.path.join(VERIF, 'mutants/wrappers'), exist_ok=True)
    res = []
    with concurrent.futures.ThreadPoolExecutor(a.jobs) as ex:
        for name, verdict in ex.map(run_one, ms):
            res.append((name, verdict))
            print(name, '->', verdict, flush=True)
    res.sort()
    with open(os.path.join(VERIF, "mutants/wrappers/RESULTS.txt" if not a.only else "mutants/wrappers/RESULTS.partial.txt"), "w") as f:
        for n, v in res:
            f.write('%s -> %s\n' % (n, v))
    surv = [n for n, v in res if v == 'SURVIVED']
    print('%d mutants: %d killed by the suite, %d caught, %d survived' % (len(res), sum(1 for _, v in res if 'suite' in v),
                                                                       sum(1 for _, v in res if v.startswith('caught')), len(surv)))
    return 0


if __name__ == '__main__':
    sys.exit(main())
