#!/venv/bin/python
"""Run checks against a seeded change without touching /repo.

usage: tools/seeded.py <dir with patch.diff [demo.py]> [--checks C04,C08 | --all] [--tier quick]

Copies /repo's src and tests to a scratch directory outside /repo and /verif, applies the patch there, runs the
repository's own suite on the copy (must still pass), runs the demonstration (exit 1 with the change, 0 without), then
runs the selected checks with VERIF_REPO pointing at the copy (evidence / replays go to a scratch output directory),
prints one line per check and removes the copy.
"""
import argparse
import json
import os
import shutil
import subprocess
import sys
import time

VERIF = os.path.dirname(os.path.dirname(os.path.abspath(__file__)))
ALL = ['C%02d' % i for i in range(1, 20)]


def sh(cmd, cwd=None, env=None, timeout=3600):
    p = subprocess.run(cmd, shell=True, cwd=cwd, env=env, stdout=subprocess.PIPE, stderr=subprocess.STDOUT, timeout=timeout)
    return p.returncode, p.stdout.decode('utf-8', 'replace')


def main():
    ap = argparse.ArgumentParser()
    ap.add_argument('dir')
    ap.add_argument('--checks', default=None)
    ap.add_argument('--all', action='store_true')
    ap.add_argument('--tier', default='quick')
    ap.add_argument('--keep', action='store_true')
    a = ap.parse_args()
    d = os.path.abspath(a.dir)
    name = os.path.basename(d.rstrip('/'))
    meta = {}
    if os.path.exists(os.path.join(d, 'meta.json')):
        meta = json.load(open(os.path.join(d, 'meta.json')))
    scratch = '/tmp/seeded-scratch/%s-%d' % (name, os.getpid())
    shutil.rmtree(scratch, ignore_errors=True)
    os.makedirs(scratch)
    res = {'name': name, 'property': meta.get('property')}
    try:
        for sub in ('src', 'tests'):
            shutil.copytree(os.path.join('/repo', sub), os.path.join(scratch, sub),
                            ignore=shutil.ignore_patterns('__pycache__', '*.egg-info'))
        rc, out = sh('patch -p1 -s < %s' % os.path.join(d, 'patch.diff'), cwd=scratch)
        if rc:
            print('PATCH DOES NOT APPLY:\n' + out)
            return 2
        rc, out = sh('/venv/bin/python -m pytest -q -p no:cacheprovider -x 2>&1 | tail -3', cwd=scratch)
        res['suite'] = out.strip().splitlines()[-1] if out.strip() else '?'
        res['suite_passes'] = ' passed' in res['suite'] and 'failed' not in res['suite']
        print('suite on the changed copy: %s' % res['suite'])
        demo = os.path.join(d, 'demo.py')
        if os.path.exists(demo):
            r0, _ = sh('/venv/bin/python %s /repo/src' % demo, cwd='/tmp', timeout=600, env=dict(os.environ, PYTHONPATH='/repo/src'))
            r1, o1 = sh('/venv/bin/python %s %s/src' % (demo, scratch), cwd='/tmp', timeout=600, env=dict(os.environ, PYTHONPATH=scratch + '/src'))
            res['demo_unchanged'], res['demo_changed'] = r0, r1
            print('demo: unchanged tree exit %d, changed copy exit %d' % (r0, r1))
        checks = ALL if a.all else (a.checks.split(',') if a.checks else meta.get('run_checks', [meta.get('property')]))
        env = dict(os.environ, VERIF_REPO=scratch, VERIF_OUT=scratch + '-out', PYTHONHASHSEED='0')
        res['checks'] = {}
        for c in checks:
            if not c:
                continue
            t0 = time.time()
            rc, out = sh('./check %s --tier %s' % (c, a.tier), cwd=VERIF, env=env, timeout=7200)
            viol = [l for l in out.splitlines() if l.startswith('VIOLATION')]
            first = ''
            for i, l in enumerate(out.splitlines()):
                if l.startswith('VIOLATION'):
                    first = ' | '.join(x.strip()[:300] for x in out.splitlines()[i + 1:i + 3])
                    break
            res['checks'][c] = {'exit': rc, 'violations': len(viol), 'wall_s': round(time.time() - t0, 1), 'first': first}
            print('%s exit=%d violations=%d (%.0fs) %s' % (c, rc, len(viol), time.time() - t0, first[:400]))
            if rc == 2:
                print(out[-1500:])
    finally:
        if not a.keep:
            shutil.rmtree(scratch, ignore_errors=True)
            shutil.rmtree(scratch + '-out', ignore_errors=True)
    with open(os.path.join(d, 'last_run.json'), 'w') as f:
        json.dump(res, f, indent=1)
    caught = [c for c, r in res.get('checks', {}).items() if r['exit'] == 1]
    print('RESULT %s: suite_passes=%s caught_by=%s' % (name, res.get('suite_passes'), caught))
    return 0


if __name__ == '__main__':
    sys.exit(main())
