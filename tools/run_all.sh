#!/bin/sh
# run every claimed check at the given tier (default quick); prints one line per check
cd "$(dirname "$0")/.." || exit 2
tier=${1:-quick}
rc=0
for id in C01 C02 C03 C04 C05 C06 C07 C08 C09 C10 C11 C12 C13 C14 C15 C16 C17 C18 C19; do
  [ -f mc/props/$(echo $id | tr A-Z a-z).py ] || continue
  out=$(./check $id --tier $tier 2>&1); r=$?
  echo "$out" | grep -E "^(VIOLATION|KNOWN-FINDING|HARNESS-ERROR|C[0-9]+ tier)" | cut -c1-260
  [ $r -ne 0 ] && { rc=1; echo "$out" | grep -A2 "^VIOLATION" | cut -c1-600 | head -12; }
done
exit $rc
