#!/venv/bin/python
"""Regenerates MANIFEST.json from the table below (claimed checks) - run after adding a property module."""
import json, os, sys
VERIF = os.path.dirname(os.path.dirname(os.path.abspath(__file__)))
ALL = ['C%02d' % i for i in range(1, 20)]
CHECKS = {
 'C01': dict(engine='explore', design='4/C01',
   text='(A) Explicit-state BFS pools of real values (apply/remove/slice/concat/pad/assign histories, depth 2-3, set/clear/extended/reset roles) and (B) the optimiser bridge table enumerated directly (all 91 unordered pairs of effect groups x {absent, value1, value2, clear code}^4 on adjacent characters x ballasts x one-span/abutting, plus every single group): every value is rendered under all 8 optimize/reset_start/reset_end combinations (+str/format/f-string, AnsiStr twin) and every rendering is interpreted by an independent SGR terminal from the default and from a dirty prior state and compared with the reduction of the settings the object reports per character.',
   note='Trusted: mc/refterm.py (conforming terminal = the 15-group reading the properties spell out). Verbatim/ill-formed settings are C15 business. Bounds in evidence.',
   technique='explicit-state BFS + exhaustive bridge-table enumeration, renderings interpreted by a reference terminal'),
 'C03': dict(engine='explore', design='4/C03',
   text='Explicit-state BFS pools (well-formed roles plus verbatim multi-group, incomplete, invalid and unknown-code settings): in every state the render/re-parse round trip (AnsiString and AnsiStr) and simplify() on a copy are checked - text, per-character effective style (reference terminal reading of the valid codes), parsable afterwards, no invalid setting left, idempotence, fixed point of str(AnsiString(str(s))), AnsiStr twin, health of the simplified value.',
   note='Trusted: mc/refterm.py, mc/model.py. States with incomplete verbatim groups are excluded from the style clause only.',
   technique='explicit-state BFS over operation histories with a state invariant checked in every state'),
 'C10': dict(engine='langenum', design='4/C10',
   text='Bounded exhaustive differential against Python str: every text up to length 4-5 over per-family alphabets (search/split, whitespace, case/predicates incl. length-changing Unicode, padding) wrapped as AnsiString/AnsiStr, formatted and plain, x every argument tuple (all patterns up to length 2 incl. empty, all start/end in [-L-1..L+1]+None, counts, fills, widths); results, result types and exception types compared with the same str call, documented deviations encoded in the oracle; per-call watchdog with a deterministic step budget for termination.',
   note='Oracle = str of /venv/bin/python 3.12. Unicode beyond the 12 representatives is not claimed.',
   technique='exhaustive enumeration of (text, method, arguments) against str as reference model'),
 'C14': dict(engine='langenum', design='4/C14',
   text='Exhaustive enumeration of spelling classes: every AnsiFormat member name (~700) x 12 spellings x 6 wrappers x 3 entry points, every code 0..255 x 9 spellings, rgb/color256 string shapes x 5 prefixes x boundary values x number formats x brackets/spaces (canonical codes computed from the statement: clamping, 24-bit split, ul_/dul_ prefix), all ordered pairs/triples of 12 base forms combined 4 ways (incl. int runs split across nested lists), and 38 rejections x 3 entry points with the exact exception type.',
   note='Canonical codes for named members come from the member definition; for rgb/color256 from the statement. color256 out of range is not claimed (statement is silent).',
   technique='exhaustive enumeration of input spellings per equivalence class against a reference canonicaliser'),
 'C15': dict(engine='langenum', design='4/C15',
   text='Bounded exhaustive: every setting text of length 1..5/6 over 13 bytes (digits, ;, space, 0x3F, m, 0x40, 0x7E, 0x7F) and every ;-list of <=4-6 tokens over 15 tokens, flags queried in both orders twice (they are cached), against a reference grammar; every AnsiFormat member/name/known code/in-range helper result; BFS pools with 7 verbatim settings: is_formatting_valid/parsable vs the conjunction over settings in use, SGR-removal and setting-intact clauses under all 8 rendering flag combinations.',
   note='Reading: tokens with spaces/leading zeros judged by integer value. The setting-intact clause is applied to unoptimised renderings (the optimiser may legitimately drop shadowed parsable settings).',
   technique='exhaustive enumeration of setting texts against a reference grammar + explicit-state BFS for the rendering clause'),
 'C02': dict(engine='langenum', design='4/C02',
   text='Bounded exhaustive enumeration: every SGR code list up to length 5/6 over an 11-code alphabet (set, clear, reset, unknown, extended-colour ingredients) after 5 prior-state contexts, and every token sequence up to length 5/6 over 13 tokens (text, 6 SGR sequences, non-SGR/unterminated control sequences, lone ESC and [), constructed through the real AnsiString/AnsiStr and compared character by character with an independent SGR terminal run over the raw input.',
   note='Trusted: mc/refterm.py. Ambiguous SGR readings (38;x, components>255) are checked for text only. Not claimed beyond the stated lengths/alphabets.',
   technique='explicit-state exhaustive enumeration of the input prefix tree against a reference SGR terminal'),
 'C04': dict(engine='explore', design='4/C04',
   text='Explicit-state BFS over real AnsiString objects (histories of apply/remove over every range with conflicting, equal and multi-parameter settings, plus concat/pad/slice steps; dedup by exact canonical object graph) to depth 2 (quick) / 3 (thorough) on texts of length 1-6; in every state every (start, stop) in ([-L-2..L+2]+None)^2 through v[i:j], clip, AnsiStr slicing, every integer index, step-1 slice objects, in-place clip and iteration is compared with Python slicing of the per-character model, and every result is probed for closedness by appending to it.',
   note='Trusted: mc/model.py abstraction (public ansi_settings_at) and equivalence (multiset + per-effect-group order). Bounds: <=3 live spans, L<=6.',
   technique='explicit-state BFS over operation histories of the real objects with lock-step reference-model comparison'),
 'C05': dict(engine='explore', design='4/C05',
   text='Explicit-state exploration of binary transitions: all ordered pairs (a, b) from two BFS pools of real AnsiString values (depth-2/3 apply/remove/structural histories; b on a different text, plain/rainbow/empty seeds) through a+b, a+=b, join(a,b), join(a,b,c), AnsiStr twins, str operands, every value with itself (same object), and every split point v[:k]+v[k:] of every pool value; each result compared with cells_a+cells_b taken before the call (multiset and per-effect-group precedence), probed for closedness, split results also compared on the reference terminal.',
   note='Trusted: mc/model.py, mc/refterm.py. Operands with <=3 live spans on texts of length <=3; pairs of histories up to depth 2x2 (quick) / 3x2 (thorough).',
   technique='explicit-state exploration of operand pairs (BFS pools) with lock-step reference-model comparison'),
 'C06': dict(engine='explore', design='4/C06',
   text='Explicit-state BFS pools of real values (depth 2/3, conflicting/equal/clearing settings, rainbow seeds) x every (start, end) in ([-L-2..L+3]+None)^2 x topmost x 7-11 settings choices: the post-state is compared with the pre-state by the relation the statement gives (text, outside cells, inside multiset, old precedence, bottom/top precedence per effect group, no-op cases by canonical equality) and probed for closedness and self-consistency.',
   note='Trusted: mc/model.py, mc/refterm.py (effect groups). Raw out-of-range bounds are checked with every settings choice in thorough, one in quick. L<=4, <=3 live spans.',
   technique='explicit-state BFS over operation histories with a relational (pre/post) reference oracle'),
 'C07': dict(engine='explore', design='4/C07',
   text='Explicit-state BFS pools (as C06, L<=5) x every (start, end) x every selection (None, present/absent/hidden roles, pairs, empty): post-state compared with the deterministic cell model (inside: minus matching codes, order kept; outside: unchanged under multiset + per-group precedence), empty ranges by canonical equality, clear_formatting, AnsiStr twins, closedness/self-check of every post-state.',
   note='Trusted: mc/model.py. Bounds as in evidence.',
   technique='explicit-state BFS over operation histories with lock-step reference-model comparison'),
 'C18': dict(engine='langenum', design='4/C18',
   text='Bounded exhaustive enumeration: every code list of length 0..5/6 over 14 codes in three input forms x add_erroneous, every code 0..255, every ordered pair of known codes, every sequence of <=4 parameter groups (complete and incomplete extended colours), and settings_to_dict on every (list<=3, prior list<=2); each reduced state compared with an independent SGR terminal, arguments snapshotted.',
   note='Trusted: mc/refterm.py. Ambiguous lists excluded from the state clause (counted).',
   technique='explicit-state exhaustive enumeration of code lists against a reference SGR reducer'),
 'C19': dict(engine='langenum', design='4/C19',
   text='Bounded exhaustive enumeration (prefix tree) of every string up to length 6 (quick) / 7 (thorough) over a 9-symbol alphabet (ESC, [, digit, ;, ?, m, another final byte, space, non-ASCII) x the 6 constructor flag combinations, each parsed by the real ParsedAnsiControlSequenceString and compared with an independent regex tokenizer and a re-inserter; every helper function x 8 boundary integers. Exhaustive within the bound, which covers every way up to three sequences and text can abut, nest or be cut short.',
   note='Trusted: mc/reftok.py (15 lines); inputs whose parameter bytes lie outside 0x30-0x3F are judged on losslessness only. Not claimed beyond length 7 / other alphabets.',
   technique='explicit-state exhaustive enumeration of the input prefix tree against a reference tokenizer'),
}
def main():
    checks = []
    for pid in ALL:
        if pid not in CHECKS:
            continue
        c = CHECKS[pid]
        checks.append({
            'property_id': pid,
            'quick_cmd': './check %s --tier quick' % pid,
            'thorough_cmd': './check %s --tier thorough' % pid,
            'evidence_file': '/verif/evidence/%s.json' % pid,
            'replay_cmd_template': './check --replay {path}',
            'engine': c['engine'],
            'level_claimed': {'category': 'model_checking', 'text': c['text'], 'design_ref': 'DESIGN.md section ' + c['design']},
            'level_note': c['note'],
            'technique': c['technique'],
        })
    m = {
        'version': 1,
        'setup_cmd': './check --setup',
        'hooks': {'guard': 'ANSI_STRING_VERIF', 'enable': 'no hooks are needed: checks import /repo/src directly and switch on the existing class attribute AnsiString.WITH_ASSERTIONS', 'baseline_off_cmd': 'cd /repo && /venv/bin/python -m pytest -ra -q -p no:cacheprovider --timeout=900 --continue-on-collection-errors', 'source_commits': [], 'add_only': True},
        'engines': [
            {'name': 'explore', 'path': 'mc/explore.py', 'serves_properties': [p for p in ALL if p in CHECKS and CHECKS[p]['engine'] == 'explore'], 'kind_free_text': 'Engine A: explicit-state breadth-first exploration of the real AnsiString objects (operation histories up to a depth, canonical form by identity renaming), lock-step comparison with a per-character reference model'},
            {'name': 'langenum', 'path': 'mc/props', 'serves_properties': [p for p in ALL if p in CHECKS and CHECKS[p]['engine'] == 'langenum'], 'kind_free_text': 'Engine B: exhaustive prefix-tree enumeration of input strings / code lists / spellings up to a length, every node checked against an independent reference interpreter'},
        ],
        'checks': checks,
        'notes': 'All checks: ./check <ID> --tier quick|thorough (VERIF_SEED, VERIF_TIER honoured). Exit 0 held / 1 VIOLATION / 2 harness error. known_findings.json lists repaired defects (fixed:) and open findings.',
        'not_applicable': [{'property_id': p, 'reason': 'not claimed yet: bounded exhaustive check designed in DESIGN.md section 4 but not built/validated at this commit'} for p in ALL if p not in CHECKS],
    }
    with open(os.path.join(VERIF, 'MANIFEST.json'), 'w') as f:
        json.dump(m, f, indent=1)
    print('MANIFEST.json: %d checks, %d not_applicable' % (len(checks), len(m['not_applicable'])))
if __name__ == '__main__':
    main()
