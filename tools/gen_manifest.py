#!/venv/bin/python
"""Regenerates MANIFEST.json from the table below (claimed checks) - run after adding a property module."""
import json, os, sys
VERIF = os.path.dirname(os.path.dirname(os.path.abspath(__file__)))
ALL = ['C%02d' % i for i in range(1, 20)]
CHECKS = {
 'C19': dict(engine='langenum', design='4/C19',
   text='Bounded exhaustive enumeration (prefix tree) of every string up to length 6 (quick) / 7 (thorough) over a 9-symbol alphabet (ESC, [, digit, ;, ?, m, another final byte, space, non-ASCII) x the 6 constructor flag combinations, each parsed by the real ParsedAnsiControlSequenceString and compared with an independent regex tokenizer and a re-inserter; every helper function x 8 boundary integers. Exhaustive within the bound, which covers every way up to three sequences and text can abut, nest or be cut short.',
   note='Trusted: mc/reftok.py (15 lines); inputs whose parameter bytes lie outside 0x30-0x3F are judged on losslessness only. Not claimed beyond length 7 / other alphabets.',
   technique='explicit-state exhaustive enumeration of the input prefix tree against a reference tokenizer'),
}
def main():
    checks = []
    for pid in ALL:
        if pid not in CHECKS:
            continue
        c = CHECKS[pid]
        checks.append({
            'property_id': pid,
            'quick_cmd': './check %s --tier quick' % pid,
            'thorough_cmd': './check %s --tier thorough' % pid,
            'evidence_file': '/verif/evidence/%s.json' % pid,
            'replay_cmd_template': './check --replay {path}',
            'engine': c['engine'],
            'level_claimed': {'category': 'model_checking', 'text': c['text'], 'design_ref': 'DESIGN.md section ' + c['design']},
            'level_note': c['note'],
            'technique': c['technique'],
        })
    m = {
        'version': 1,
        'setup_cmd': './check --setup',
        'hooks': {'guard': 'ANSI_STRING_VERIF', 'enable': 'no hooks are needed: checks import /repo/src directly and switch on the existing class attribute AnsiString.WITH_ASSERTIONS', 'baseline_off_cmd': 'cd /repo && /venv/bin/python -m pytest -ra -q -p no:cacheprovider --timeout=900 --continue-on-collection-errors', 'source_commits': [], 'add_only': True},
        'engines': [
            {'name': 'explore', 'path': 'mc/explore.py', 'serves_properties': [p for p in ALL if p in CHECKS and CHECKS[p]['engine'] == 'explore'], 'kind_free_text': 'Engine A: explicit-state breadth-first exploration of the real AnsiString objects (operation histories up to a depth, canonical form by identity renaming), lock-step comparison with a per-character reference model'},
            {'name': 'langenum', 'path': 'mc/props', 'serves_properties': [p for p in ALL if p in CHECKS and CHECKS[p]['engine'] == 'langenum'], 'kind_free_text': 'Engine B: exhaustive prefix-tree enumeration of input strings / code lists / spellings up to a length, every node checked against an independent reference interpreter'},
        ],
        'checks': checks,
        'notes': 'All checks: ./check <ID> --tier quick|thorough (VERIF_SEED, VERIF_TIER honoured). Exit 0 held / 1 VIOLATION / 2 harness error. known_findings.json lists repaired defects (fixed:) and open findings.',
        'not_applicable': [{'property_id': p, 'reason': 'not claimed yet: bounded exhaustive check designed in DESIGN.md section 4 but not built/validated at this commit'} for p in ALL if p not in CHECKS],
    }
    with open(os.path.join(VERIF, 'MANIFEST.json'), 'w') as f:
        json.dump(m, f, indent=1)
    print('MANIFEST.json: %d checks, %d not_applicable' % (len(checks), len(m['not_applicable'])))
if __name__ == '__main__':
    main()
