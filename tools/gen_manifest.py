#!/venv/bin/python
"""Regenerates MANIFEST.json from the table below (claimed checks) - run after adding a property module."""
import json, os, sys
VERIF = os.path.dirname(os.path.dirname(os.path.abspath(__file__)))
ALL = ['C%02d' % i for i in range(1, 20)]
CHECKS = {
 'C08': dict(engine='explore', design='4/C08',
   text='Explicit-state exploration with a snapshot monitor: every operation instance of the table (~90 unary forms on AnsiString and AnsiStr, + / += / join / join(a,b,a) / AnsiStr+ / replace with a reused formatted replacement on every pair from two BFS pools incl. the same object twice, 8 settings-list entry points) is run on fresh values; receiver and every argument are snapshotted (type, text, ordered cells, exact canonical object graph, AnsiStr payload) before and after; in-place variants must return the receiver and equal the non-in-place result; then each of 10 mutators is applied to the source / each result / each operand and every other party re-observed.',
   note='Trusted: mc/model.py canonical form (exact object graph incl. identities; renderings and == are functions of it). Pools: complete depth-2 pools on texts of length 2-3 (bounds in evidence).',
   technique='explicit-state exploration of (operation, operands, mutator) triples with snapshot comparison'),
 'C09': dict(engine='explore', design='4/C09',
   text='(1) Exhaustive edge-argument sweep: ~2700 calls per pool value covering every public method with empty patterns, widths 0/10^4/wrong type, fills of length 0/1/2, bounds +-(L+1) and +-10^9, counts up to 10^9, None, wrong-kind types, malformed settings (incl. a list containing itself) and malformed specs, each under a per-call watchdog with a deterministic 10^6-line budget; only TypeError/ValueError (IndexError for integer index, the error str raises) allowed and the receiver must be canonically unchanged after a raise. (2) Explicit-state BFS over the full mutating alphabet (~110 ops per state incl. out-of-range bounds, zero-width pads, += itself, replace to empty) to depth 2/3 with a deep probe (WITH_ASSERTIONS walk, 8 renderings, every slice/index, find_settings, join, conversions, re-parse, simplify, == copy, closedness) in every new state; bad post-states quarantined. The BFS additionally checks, for every transition, read transparency (the same operation after a full round of queries and renderings must give the same observable value) and that an iterator taken before the operation still ends cleanly afterwards; seeds include restart points, duplicated setting objects, three stacked settings and a base text containing an SGR sequence; the sweep has overflow widths (10**20) and wrong-typed counts.',
   note='Reading of "terminates": within 10^6 interpreted lines. Floats for indices and invalid regular expressions are outside "documented types".',
   technique='explicit-state BFS over mutating operation histories + exhaustive edge-argument enumeration under a step-bounded watchdog'),
 'C11': dict(engine='explore', design='4/C11',
   text='Exhaustive over every text up to length 4/5 over {a,b,-} (and a whitespace alphabet) x position-identifying layouts (rainbow, rainbow under every span, abutting equal spans at every cut) x split/rsplit (every separator up to length 2 x maxsplit; None), splitlines, partition/rpartition, strip family, removeprefix/suffix, case methods, assign_str (L-2..L+2), replace (7 replacements incl. styled AnsiString/AnsiStr objects reused across matches x counts), expandtabs, on AnsiString and AnsiStr: each piece must report cells[o:o+len] at the offset found by a reference scan that is itself validated against Python str, and is probed for closedness. Also: layouts with verbatim multi-group and non-canonically spelled settings and three stacked settings, the receiver itself as replacement value, the in-place form of replace.',
   note='Not claimed: case conversions that change the length; replace with an empty search string (style of an empty match undefined).',
   technique='exhaustive enumeration of (text, layout, method, arguments) against a reference scan + cell model'),
 'C12': dict(engine='explore', design='4/C12',
   text='Values: BFS pools (L 0..4) x ljust/rjust/center/zfill x width 0..L+4 x 6 fill characters (incl. : + - digit) x inplace x extend_formatting (+AnsiStr twin): text via Python format(), cells via the fill model, closedness probe. Spec grammar: 12 values x every spec of the component product (8 fills x 3 signs x 4 aligns x 7 widths x 7 ansi parts) plus every string of length <=3 over 8 metacharacters through format/to_str/f-string/AnsiStr: reference fill-first parser (colon-first admitted where fill-first is invalid), output interpreted by the reference terminal and compared with the pad model, the C06 topmost clause for the ansi part and the fold "pad + apply_formatting on a copy"; receiver canonically unchanged; ValueError outside the grammar.',
   note='The codes of an ansi part are resolved through the library settings parser (checked by C14).',
   technique='explicit-state BFS for values + exhaustive enumeration of the spec language against a reference parser'),
 'C13': dict(engine='explore', design='4/C13',
   text='Twin simulation: 4 constructor source kinds x 5 settings forms, then ~900 calls per receiver covering every method the two classes share (table checked against dir() at start-up) with edge arguments, on ~30-60 pool values and (depth 2) on the distinct AnsiStr results of the first round: result shape, type AnsiStr, text, cells, 8 renderings, 3 format specs and exception types must agree with the non-in-place AnsiString call; every AnsiStr ever produced has its payload (str.__str__, join, %s, file.write) compared with its to_str().',
   note='encode is excluded (outside all properties). __eq__ is not compared (documented to differ).',
   technique='explicit-state twin (lock-step) exploration of both classes over operation sequences up to depth 2'),
 'C16': dict(engine='explore', design='4/C16',
   text='Exhaustive over 6 texts x layouts (plain, rainbow, every one-span, rainbow+span; two-span in thorough) x 8 plain patterns (with regex metacharacters, empty) and 8 regexes (empty/adjacent/lookahead/optional matches) x match_case x 5 counts x settings menus (incl. none/None/absent): the method result must equal - by canonical state, cells, == and all renderings - the fold of apply/remove_formatting over islice(re.finditer) on a copy; AnsiStr twin. Also a Unicode family (dotted/dotless i, long s, sigma forms, micro sign; oracle still re.IGNORECASE), three bare integer format arguments forming one extended-colour setting, three stacked settings.',
   note='C06/C07 establish apply/remove themselves.',
   technique='exhaustive enumeration of (value, pattern, flags, count, settings) against a reference fold through the public API'),
 'C17': dict(engine='explore', design='4/C17',
   text='Explicit-state BFS pools (L<=5) x ansi_settings_at/settings_at for every index in [-L-2..L+2] x find_settings for 9 selections x every (start, end) in ([-L-1..L+1]+None)^2 x both directions against a per-character table (first position, run property, first lacking position, inverted/empty cases); AnsiStr twin. Also separator-only selections, the exhaustive triple-of-ranges families, and the AnsiStr twin over the whole bounds grid for two selections in both directions.',
   note='A match only at the closing bound is accepted either way (statement silent).',
   technique='explicit-state BFS over operation histories with exhaustive query probes in every state'),
 'C01': dict(engine='explore', design='4/C01',
   text='(A) Explicit-state BFS pools of real values (apply/remove/slice/concat/pad/assign histories, depth 2-3, set/clear/extended/reset roles) and (B) the optimiser bridge table enumerated directly (all 91 unordered pairs of effect groups x {absent, value1, value2, clear code}^4 on adjacent characters x ballasts x one-span/abutting, plus every single group): every value is rendered under all 8 optimize/reset_start/reset_end combinations (+str/format/f-string, AnsiStr twin) and every rendering is interpreted by an independent SGR terminal from the default and from a dirty prior state and compared with the reduction of the settings the object reports per character. Since waves 7-10 also: a `similar` task (every ordered pair of near-identical values of one effect group - plain and bright colours, 256-colour indices and rgb components over {0,1,10,100,2,20,200,25,250,255}, fonts, clear codes - on adjacent characters), exhaustive layout families as start states (every triple of ranges with three settings in the patterns distinct / X,Y,X / W,R,W; every character with its own fg+bg in either order), pools with verbatim multi-group settings, the less common effect groups, reset and zero-parameter colours.',
   note='Trusted: mc/refterm.py (conforming terminal = the 15-group reading the properties spell out). Verbatim/ill-formed settings are C15 business. Bounds in evidence.',
   technique='explicit-state BFS + exhaustive bridge-table enumeration, renderings interpreted by a reference terminal'),
 'C03': dict(engine='explore', design='4/C03',
   text='Explicit-state BFS pools (well-formed roles plus verbatim multi-group, incomplete, invalid and unknown-code settings): in every state the render/re-parse round trip (AnsiString and AnsiStr) and simplify() on a copy are checked - text, per-character effective style (reference terminal reading of the valid codes), parsable afterwards, no invalid setting left, idempotence, fixed point of str(AnsiString(str(s))), AnsiStr twin, health of the simplified value. Start states also include the exhaustive layout families (triples of ranges; per-character fg+bg in both orders, i.e. four and more change points changing the same two effects), the less common effect groups and zero-parameter colours next to a verbatim setting.',
   note='Trusted: mc/refterm.py, mc/model.py. States with incomplete verbatim groups are excluded from the style clause only.',
   technique='explicit-state BFS over operation histories with a state invariant checked in every state'),
 'C10': dict(engine='langenum', design='4/C10',
   text='Bounded exhaustive differential against Python str: every text up to length 4-5 over per-family alphabets (search/split, whitespace, case/predicates incl. length-changing Unicode, padding) wrapped as AnsiString/AnsiStr, formatted and plain, x every argument tuple (all patterns up to length 2 incl. empty, all start/end in [-L-1..L+1]+None, counts, fills, widths); results, result types and exception types compared with the same str call, documented deviations encoded in the oracle; per-call watchdog with a deterministic step budget for termination. Also a line-boundary family (all ten str.splitlines boundaries and their nearest non-boundary neighbours, every text up to length 3/4) and `in` with styled AnsiString / AnsiStr needles.',
   note='Oracle = str of /venv/bin/python 3.12. Unicode beyond the 12 representatives is not claimed.',
   technique='exhaustive enumeration of (text, method, arguments) against str as reference model'),
 'C14': dict(engine='langenum', design='4/C14',
   text='Exhaustive enumeration of spelling classes: every AnsiFormat member name (~700) x 12 spellings x 6 wrappers x 3 entry points, every code 0..255 x 9 spellings, rgb/color256 string shapes x 5 prefixes x boundary values x number formats x brackets/spaces (canonical codes computed from the statement: clamping, 24-bit split, ul_/dul_ prefix), all ordered pairs/triples of 12 base forms combined 4 ways (incl. int runs split across nested lists), and 38 rejections x 3 entry points with the exact exception type.',
   note='Canonical codes for named members come from the member definition; for rgb/color256 from the statement. color256 out of range is not claimed (statement is silent).',
   technique='exhaustive enumeration of input spellings per equivalence class against a reference canonicaliser'),
 'C15': dict(engine='langenum', design='4/C15',
   text='Bounded exhaustive: every setting text up to length 4 (quick) / 5 (thorough) over 17 characters (digits, ;, space, 0x3F, m, 0x40, 0x7E, 0x7F, _, +, -, a full-width digit) and every ;-list of <=4-6 tokens over 18 tokens (incl. +1, 1_0, spaced and zero-padded numbers), flags queried in both orders twice (they are cached), against a reference grammar; every AnsiFormat member/name/known code/in-range helper result; BFS pools with 9 verbatim settings: is_formatting_valid/parsable vs the conjunction over settings in use, SGR-removal and setting-intact clauses under all 8 rendering flag combinations. Pool clause `setting-rewritten`: every setting in use must equal, character for character, one of the texts the history supplied (non-canonical spellings, AnsiSetting objects, steps that copy setting objects).',
   note='Reading: tokens with spaces/leading zeros judged by integer value. The setting-intact clause is applied to unoptimised renderings (the optimiser may legitimately drop shadowed parsable settings).',
   technique='exhaustive enumeration of setting texts against a reference grammar + explicit-state BFS for the rendering clause'),
 'C02': dict(engine='langenum', design='4/C02',
   text='Bounded exhaustive enumeration: every SGR code list up to length 5/6 over an 11-code alphabet (set, clear, reset, unknown, extended-colour ingredients) after 5 prior-state contexts, every token sequence up to length 4 (quick) / 6 (thorough) over 15 tokens (text, 6 SGR sequences, non-SGR control sequences incl. the boundary final bytes @ and ~, unterminated sequences, lone ESC and [), and the same token language behind 300 characters of plain text (change points beyond offset 256), constructed through the real AnsiString/AnsiStr and compared character by character with an independent SGR terminal run over the raw input. Also every ordered pair of the 75 known single codes (one sequence, two sequences, on top of a colour) and every token string parsed a second time into an object that has been used before (set_ansi_str must leave nothing of the old content).',
   note='Trusted: mc/refterm.py. The ambiguous reading 38;x (x not 2/5) is judged against the admissible set (drop 38 only | drop 38 and x); components>255 / empty / non-decimal parameters are checked for text only. Not claimed beyond the stated lengths/alphabets.',
   technique='explicit-state exhaustive enumeration of the input prefix tree against a reference SGR terminal'),
 'C04': dict(engine='explore', design='4/C04',
   text='Explicit-state BFS over real AnsiString objects (histories of apply/remove over every range with conflicting, equal and multi-parameter settings, plus concat/pad/slice steps; dedup by exact canonical object graph) to depth 2 (quick) / 3 (thorough) on texts of length 1-6; in every state every (start, stop) in ([-L-2..L+2]+None)^2 through v[i:j], clip, AnsiStr slicing, every integer index, step-1 slice objects, in-place clip and iteration is compared with Python slicing of the per-character model, and every result is probed for closedness by appending to it. Also AnsiStr integer indices, in-place clip and AnsiStr.clip over the whole bounds grid, the exhaustive triple-of-ranges families, and values whose base text itself contains a complete SGR sequence (layouts esc / esc2, after defect 9a8a9de).',
   note='Trusted: mc/model.py abstraction (public ansi_settings_at) and equivalence (multiset + per-effect-group order). Bounds: <=3 live spans, L<=6.',
   technique='explicit-state BFS over operation histories of the real objects with lock-step reference-model comparison'),
 'C05': dict(engine='explore', design='4/C05',
   text='Explicit-state exploration of binary transitions: all ordered pairs (a, b) from two BFS pools of real AnsiString values (depth-2/3 apply/remove/structural histories; b on a different text, plain/rainbow/empty seeds) through a+b, a+=b, join(a,b), join(a,b,c), AnsiStr twins, str operands, every value with itself (same object), and every split point v[:k]+v[k:] of every pool value; each result compared with cells_a+cells_b taken before the call (multiset and per-effect-group precedence), probed for closedness, split results also compared on the reference terminal. Also: every triple-of-ranges value (1000 on four characters) split at every point, plain-str operands that carry SGR sequences (style left open, sequence without text) in all positions of + and join, non-canonical and multi-group setting texts.',
   note='Trusted: mc/model.py, mc/refterm.py. Operands with <=3 live spans on texts of length <=3; pairs of histories up to depth 2x2 (quick) / 3x2 (thorough).',
   technique='explicit-state exploration of operand pairs (BFS pools) with lock-step reference-model comparison'),
 'C06': dict(engine='explore', design='4/C06',
   text='Explicit-state BFS pools of real values (depth 2/3, conflicting/equal/clearing settings, rainbow seeds) x every (start, end) in ([-L-2..L+3]+None)^2 x topmost x 7-11 settings choices: the post-state is compared with the pre-state by the relation the statement gives (text, outside cells, inside multiset, old precedence, bottom/top precedence per effect group, no-op cases by canonical equality) and probed for closedness and self-consistency. Also: menus with two conflicting new settings, a reset, a verbatim two-group setting and a separator-only argument; start states with restart points, three stacked settings (exhaustive triples of ranges), the less common groups; the AnsiStr twin over the whole raw bounds grid.',
   note='Trusted: mc/model.py, mc/refterm.py (effect groups). Raw out-of-range bounds are checked with four settings choices in thorough, one in quick. L<=4, <=3 live spans.',
   technique='explicit-state BFS over operation histories with a relational (pre/post) reference oracle'),
 'C07': dict(engine='explore', design='4/C07',
   text='Explicit-state BFS pools (as C06, L<=5) x every (start, end) x every selection (None, present/absent/hidden roles, pairs, empty): post-state compared with the deterministic cell model (inside: minus matching codes, order kept; outside: unchanged under multiset + per-group precedence), empty ranges by canonical equality, clear_formatting, AnsiStr twins, closedness/self-check of every post-state. Also: separator-only selections (must remove nothing), start states with restart points, exhaustive triples of ranges, reset / two-group settings; the AnsiStr twin over the whole raw bounds grid.',
   note='Trusted: mc/model.py. Bounds as in evidence.',
   technique='explicit-state BFS over operation histories with lock-step reference-model comparison'),
 'C18': dict(engine='langenum', design='4/C18',
   text='Bounded exhaustive enumeration: every code list of length 0..5/6 over 14 codes in three input forms x add_erroneous, every code 0..255, every ordered pair of known codes, every sequence of <=4 parameter groups (complete and incomplete extended colours), and settings_to_dict on every (list<=3, prior list<=2); each reduced state compared with an independent SGR terminal (admissible set for the ambiguous 38;x readings), arguments snapshotted; history-dependent violations (state kept between calls) are confirmed by re-running their task in a fresh process.',
   note='Trusted: mc/refterm.py. Ambiguous lists excluded from the state clause (counted).',
   technique='explicit-state exhaustive enumeration of code lists against a reference SGR reducer'),
 'C19': dict(engine='langenum', design='4/C19',
   text='Bounded exhaustive enumeration (prefix tree) of every string up to length 6 (quick) / 7 (thorough) over a 9-symbol alphabet (ESC, [, digit, ;, ?, m, another final byte, space, non-ASCII), one symbol shorter over that alphabet plus the boundary bytes @ ~ DEL, and every string up to length 6/7 over {ESC, [, m, digit} behind 300-1000 characters of text (removal points beyond offset 256), x the 6 constructor flag combinations, each parsed by the real ParsedAnsiControlSequenceString and compared with an independent regex tokenizer and a re-inserter; every helper function x 8 boundary integers. Also token-level strings (8 tokens - text pieces, SGR and non-SGR sequences, unterminated pieces - to length 6/7 and three tokens to length 9/11), i.e. many removal points per string.',
   note='Trusted: mc/reftok.py (15 lines); inputs whose parameter bytes lie outside 0x30-0x3F are judged on losslessness only. Not claimed beyond length 7 / other alphabets.',
   technique='explicit-state exhaustive enumeration of the input prefix tree against a reference tokenizer'),
}
def main():
    checks = []
    for pid in ALL:
        if pid not in CHECKS:
            continue
        c = CHECKS[pid]
        checks.append({
            'property_id': pid,
            'quick_cmd': './check %s --tier quick' % pid,
            'thorough_cmd': './check %s --tier thorough' % pid,
            'evidence_file': '/verif/evidence/%s.json' % pid,
            'replay_cmd_template': './check --replay {path}',
            'engine': c['engine'],
            'level_claimed': {'category': 'model_checking', 'text': c['text'], 'design_ref': 'DESIGN.md section ' + c['design']},
            'level_note': c['note'],
            'technique': c['technique'],
        })
    m = {
        'version': 1,
        'setup_cmd': './check --setup',
        'hooks': {'guard': 'ANSI_STRING_VERIF', 'enable': 'no hooks are needed: checks import /repo/src directly and switch on the existing class attribute AnsiString.WITH_ASSERTIONS', 'baseline_off_cmd': 'cd /repo && /venv/bin/python -m pytest -ra -q -p no:cacheprovider --timeout=900 --continue-on-collection-errors', 'source_commits': [], 'add_only': True},
        'engines': [
            {'name': 'explore', 'path': 'mc/explore.py', 'serves_properties': [p for p in ALL if p in CHECKS and CHECKS[p]['engine'] == 'explore'], 'kind_free_text': 'Engine A: explicit-state breadth-first exploration of the real AnsiString objects (operation histories up to a depth, canonical form by identity renaming), lock-step comparison with a per-character reference model'},
            {'name': 'langenum', 'path': 'mc/props', 'serves_properties': [p for p in ALL if p in CHECKS and CHECKS[p]['engine'] == 'langenum'], 'kind_free_text': 'Engine B: exhaustive prefix-tree enumeration of input strings / code lists / spellings up to a length, every node checked against an independent reference interpreter'},
        ],
        'checks': checks,
        'notes': 'All checks: ./check <ID> --tier quick|thorough (VERIF_SEED, VERIF_TIER honoured). Exit 0 held / 1 VIOLATION / 2 harness error. known_findings.json lists repaired defects (fixed:) and open findings.',
        'not_applicable': [{'property_id': p, 'reason': 'not claimed yet: bounded exhaustive check designed in DESIGN.md section 4 but not built/validated at this commit'} for p in ALL if p not in CHECKS],
    }
    with open(os.path.join(VERIF, 'MANIFEST.json'), 'w') as f:
        json.dump(m, f, indent=1)
    print('MANIFEST.json: %d checks, %d not_applicable' % (len(checks), len(m['not_applicable'])))
if __name__ == '__main__':
    main()
