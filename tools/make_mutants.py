#!/venv/bin/python
"""First-wave hand-written mutants (DESIGN section 5): each is one small text replacement in the library source.
Writes /verif/mutants/<name>/patch.diff and meta.json (re-creatable; patches are relative to the repository root)."""
import difflib
import json
import os
import sys

VERIF = os.path.dirname(os.path.dirname(os.path.abspath(__file__)))
S = 'src/ansi_string/ansi_string.py'
P = 'src/ansi_string/ansi_parsing.py'
F = 'src/ansi_string/ansi_format.py'
A = 'src/ansi_string/ansi_param.py'

M = [
    ('m01_clear_code_overline', ['C01'], A, "AnsiParamEffect.OVERLINE: AnsiParam.NO_OVERLINED,", "AnsiParamEffect.OVERLINE: AnsiParam.NO_FRAMED_ENCIRCLED,"),
    ('m02_final_byte_range', ['C02', 'C19', 'C15'], F, "ansi_term_ord_range = (0x40, 0x7E)", "ansi_term_ord_range = (0x41, 0x7E)"),
    ('m03_parse_apply_before_remove', ['C02', 'C03'], S,
     "                if settings_to_remove:\n                    self.remove_formatting(settings_to_remove, key)\n                if settings_to_apply:\n                    self.apply_formatting(settings_to_apply, key)\n",
     "                if settings_to_apply:\n                    self.apply_formatting(settings_to_apply, key)\n                if settings_to_remove:\n                    self.remove_formatting(settings_to_remove, key)\n"),
    ('m04_slice_loop_ge', ['C04'], S, "            if idx > len(self._s) or idx > en:\n                # Complete\n                break\n            elif idx == en:",
     "            if idx > len(self._s) or idx >= en:\n                # Complete\n                break\n            elif idx == en:"),
    ('m05_negative_not_clamped', ['C04', 'C06', 'C07', 'C17'], S, "            if ret_val < 0:\n                ret_val = 0\n            return ret_val", "            return ret_val"),
    ('m06_add_on_self', ['C05', 'C08'], S, "        cpy = self.copy()\n        cpy += value\n        return cpy\n\n    def __iadd__(self,",
     "        cpy = self\n        cpy += value\n        return cpy\n\n    def __iadd__(self,"),
    ('m07_empty_range_applied', ['C06'], S, "        if not settings or start >= len(self._s) or end <= start:\n            # Ignore - nothing to apply\n            return\n\n        ansi_settings = _AnsiSettingPoint._scrub_ansi_settings(settings, make_unique=True)",
     "        if not settings or start >= len(self._s) or end < start:\n            # Ignore - nothing to apply\n            return\n\n        ansi_settings = _AnsiSettingPoint._scrub_ansi_settings(settings, make_unique=True)"),
    ('m08_remove_readd_at_text_end', ['C07'], S, "                    if end != len(self._s) and removed_settings:", "                    if removed_settings:"),
    ('m09_copy_shares_lists', ['C08'], S, "                self._fmts[k] = _AnsiSettingPoint(list(v.add), list(v.rem))", "                self._fmts[k] = _AnsiSettingPoint(v.add, v.rem)"),
    ('m10_apply_insert_before_validate', ['C09'], S,
     "        ansi_settings = _AnsiSettingPoint._scrub_ansi_settings(settings, make_unique=True)\n\n        if not ansi_settings:\n            # Empty set - usually just a string of semicolons was received\n            return\n\n        # Apply settings\n        if start not in self._fmts:\n            self._fmts[start] = _AnsiSettingPoint()\n",
     "        if start not in self._fmts:\n            self._fmts[start] = _AnsiSettingPoint()\n\n        ansi_settings = _AnsiSettingPoint._scrub_ansi_settings(settings, make_unique=True)\n\n        if not ansi_settings:\n            # Empty set - usually just a string of semicolons was received\n            return\n\n        # Apply settings\n"),
    ('m11_count_drops_end', ['C10', 'C13'], S, "        return self._s.count(sub, start, end)\n\n    def encode(self, encoding:str=\"utf-8\", errors:str=\"strict\") -> bytes:\n        '''\n        Encode the string using the codec registered for encoding.\n\n        encoding\n        The encoding in which to encode the string.\n        errors\n        The error handling scheme to use for encoding errors. The default is 'strict' meaning that encoding errors raise\n        a UnicodeEncodeError. Other possible values are 'ignore', 'replace' and 'xmlcharrefreplace' as well as any other\n        name registered with codecs.register_error that can handle UnicodeEncodeErrors.\n        '''\n        return str(self).encode(encoding, errors)\n\n    def endswith(self, suffix:str, start:int=None, end:int=None) -> bool:\n        '''\n        Return True if S ends with the specified suffix, False otherwise. With optional start, test S beginning at that\n        position. With optional end, stop comparing S at that position. suffix can also be a tuple of strings to try.\n        '''\n        return self._s.endswith(suffix, start, end)\n\n    def expandtabs(self, tabsize:int=8, inplace",
     "        return self._s.count(sub, start)\n\n    def encode(self, encoding:str=\"utf-8\", errors:str=\"strict\") -> bytes:\n        '''\n        Encode the string using the codec registered for encoding.\n\n        encoding\n        The encoding in which to encode the string.\n        errors\n        The error handling scheme to use for encoding errors. The default is 'strict' meaning that encoding errors raise\n        a UnicodeEncodeError. Other possible values are 'ignore', 'replace' and 'xmlcharrefreplace' as well as any other\n        name registered with codecs.register_error that can handle UnicodeEncodeErrors.\n        '''\n        return str(self).encode(encoding, errors)\n\n    def endswith(self, suffix:str, start:int=None, end:int=None) -> bool:\n        '''\n        Return True if S ends with the specified suffix, False otherwise. With optional start, test S beginning at that\n        position. With optional end, stop comparing S at that position. suffix can also be a tuple of strings to try.\n        '''\n        return self._s.endswith(suffix, None, end)\n\n    def expandtabs(self, tabsize:int=8, inplace"),
    ('m12_replace_style_from_last_char', ['C11'], S, "                replace = AnsiString(new, obj.ansi_settings_at(idx))", "                replace = AnsiString(new, obj.ansi_settings_at(idx + len(old) - 1))"),
    ('m13_to_str_pads_self', ['C12', 'C08'], S, "            # Make a copy\n            obj = self.copy()\n", "            # Make a copy\n            obj = self\n"),
    ('m14_center_right_one', ['C12', 'C05'], S, "                if old_end in obj._fmts:\n                    obj._fmts[len(obj._s)] = obj._fmts.pop(old_end)",
     "                if old_end in obj._fmts and right_spaces > 1:\n                    obj._fmts[len(obj._s)] = obj._fmts.pop(old_end)"),
    ('m15_ansistr_splitlines_keepends', ['C13'], S, "        return [AnsiStr(x) for x in self._s.splitlines(keepends)]", "        return [AnsiStr(x) for x in self._s.splitlines()]"),
    ('m16_ansistr_replace_count', ['C13'], S, "        cpy.replace(old, new, count, inplace=True)\n        return AnsiStr(cpy)", "        cpy.replace(old, new, inplace=True)\n        return AnsiStr(cpy)"),
    ('m17_rgb_clamp_256', ['C14'], F, "            r=min(255, max(0, r_or_rgb))", "            r=min(256, max(0, r_or_rgb))"),
    ('m18_dul256_single_underline', ['C14'], F,
     "        elif component == ColorComponentType.DOUBLE_UNDERLINE:\n            return [\n                AnsiSetting(AnsiParam.DOUBLE_UNDERLINE.value),\n                AnsiSetting(__class__.SET_UNDERLINE_COLOR_256.fn(val))",
     "        elif component == ColorComponentType.DOUBLE_UNDERLINE:\n            return [\n                AnsiSetting(AnsiParam.UNDERLINE.value),\n                AnsiSetting(__class__.SET_UNDERLINE_COLOR_256.fn(val))"),
    ('m19_valid_excludes_at', ['C15'], F, "            if ord(c) >= ansi_term_ord_range[0] and ord(c) <= ansi_term_ord_range[1]:\n                return False",
     "            if ord(c) > ansi_term_ord_range[0] and ord(c) <= ansi_term_ord_range[1]:\n                return False"),
    ('m20_parsable_accepts_256', ['C15'], F, "            if not isinstance(code, int) or code < 0 or code > 255:", "            if not isinstance(code, int) or code < 0 or code > 256:"),
    ('m21_unformat_none_not_all', ['C16'], S, "        if not format or None in format:\n            format = None", "        if not format:\n            format = None"),
    ('m22_format_matching_case', ['C16'], S, "        for match in re.finditer(matchspec, self._s, re.IGNORECASE if not match_case else 0):\n            if count < 0 or count > 0:\n                self.apply_formatting_for_match(format, match)",
     "        for match in re.finditer(matchspec, self._s, re.IGNORECASE if not (match_case or regex) else 0):\n            if count < 0 or count > 0:\n                self.apply_formatting_for_match(format, match)"),
    ('m23_find_settings_end_skip', ['C17'], S, "            for idx in sorted([x for x in idx_to_settings.keys() if x>found_start]):", "            for idx in sorted([x for x in idx_to_settings.keys() if x>found_start+1]):"),
    ('m24_empty_sequence_not_reset', ['C18', 'C02'], P, "    if not sequence:\n        return [AnsiSetting(AnsiParam.RESET.value)]", "    if not sequence:\n        return []"),
    ('m26_slice_end_identity', ['C04'], S, "            elif idx == en:\n                if settings.rem:", "            elif idx is en:\n                if settings.rem:"),
    ('m27_iadd_seam_identity', ['C05'], S, "                if (\n                    key == shift\n", "                if (\n                    key is shift\n"),
    ('m28_remove_start_identity', ['C07'], S, "            if idx == start:\n                for s in current_settings:", "            if idx is start:\n                for s in current_settings:"),
    ('m25_cursor_position_swapped', ['C19'], S, "    return ansi_control_sequence_introducer + str(row) + ';' + str(column) + 'H'", "    return ansi_control_sequence_introducer + str(column) + ';' + str(row) + 'H'"),
]


def main():
    out = os.path.join(VERIF, 'mutants')
    os.makedirs(out, exist_ok=True)
    n = 0
    for name, props, path, old, new in M:
        src = open(os.path.join('/repo', path)).read()
        if src.count(old) != 1:
            print('SKIP %s: pattern occurs %d times' % (name, src.count(old)))
            continue
        new_src = src.replace(old, new)
        diff = ''.join(difflib.unified_diff(src.splitlines(True), new_src.splitlines(True), 'a/' + path, 'b/' + path))
        d = os.path.join(out, name)
        os.makedirs(d, exist_ok=True)
        open(os.path.join(d, 'patch.diff'), 'w').write(diff)
        json.dump({'property': props[0], 'run_checks': props, 'origin': 'hand-written first wave (DESIGN section 5)'},
                  open(os.path.join(d, 'meta.json'), 'w'), indent=1)
        n += 1
    print('%d mutants written' % n)


if __name__ == '__main__':
    sys.exit(main())
