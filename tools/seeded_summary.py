#!/usr/bin/env python3
"""tools/seeded_summary.py: one line per kept seeded change from its meta.json -> seeded/RESULTS.txt"""
import glob
import json
import os

root = os.path.join(os.path.dirname(os.path.dirname(os.path.abspath(__file__))), 'seeded')
lines = []
for d in sorted(glob.glob(os.path.join(root, 'C*_*'))):
    m = json.load(open(os.path.join(d, 'meta.json')))
    cb = sorted(m.get('caught_by', {})) if isinstance(m.get('caught_by'), dict) else m.get('caught_by')
    v = m.get('verified', {})
    lines.append('%s property=%s suite=%r demo(unchanged,changed)=(%s,%s) caught_by=%s'
                 % (os.path.basename(d), m.get('property'), v.get('suite_on_changed_copy'), v.get('demo_exit_unchanged_tree'),
                    v.get('demo_exit_changed_copy'), cb))
open(os.path.join(root, 'RESULTS.txt'), 'w').write('\n'.join(lines) + '\n')
print(len(lines), 'changes;', sum(1 for l in lines if l.endswith('caught_by=[]') or l.endswith('caught_by=None')), 'uncaught')
