#!/bin/sh
# run every hand-written mutant against its designated checks; append a line per mutant to mutants/RESULTS.txt
cd "$(dirname "$0")/.." || exit 2
: > mutants/RESULTS.txt
for d in mutants/m*/; do
  /venv/bin/python tools/seeded.py "$d" 2>&1 | grep -E "^(suite|RESULT|C[0-9]+ exit|PATCH)" | cut -c1-330 | tee -a mutants/RESULTS.txt
done
