#!/usr/bin/env python3
"""tools/fold_meta.py <seeded dirs...>: merge last_run.json (written by tools/seeded.py) into meta.json
(verified + caught_by) and remove it."""
import json
import os
import sys

for d in sys.argv[1:]:
    lr = os.path.join(d, 'last_run.json')
    if not os.path.exists(lr):
        continue
    r = json.load(open(lr))
    mp = os.path.join(d, 'meta.json')
    m = json.load(open(mp))
    if 'suite' in r or 'suite_passes' in r:
        m['verified'] = {'suite_on_changed_copy': r.get('suite', str(r.get('suite_passes'))),
                         'demo_exit_unchanged_tree': r.get('demo_unchanged'), 'demo_exit_changed_copy': r.get('demo_changed'),
                         'how': 'tools/seeded.py'}
    cb = m.get('caught_by', {})
    if not isinstance(cb, dict):
        cb = {}
    for c, x in r.get('checks', {}).items():
        if x['exit'] == 1:
            cb[c] = x['first'][:400]
        elif c in cb:
            del cb[c]
    m['caught_by'] = cb
    json.dump(m, open(mp, 'w'), indent=1)
    os.remove(lr)
    print(d, sorted(cb))
